/-
  Lemmas for C16 (rendered reports): the colour code path is the plain code
  path up to painting; rendering never panics on canonical displays; every line
  of the widened span is printed exactly once, in order; gutters are aligned;
  the riser state machine of highlight.rs agrees with the index-based layout
  specification on well-behaved highlights.
-/
import TephraProofs.Window
import TephraModel.Spec.RenderSpec
import TephraModel.Fam.Render

set_option linter.unusedSimpArgs false
set_option linter.unusedSectionVars false
set_option linter.unusedVariables false

namespace Tephra.RenderPf
open Tephra Tephra.Render Tephra.Spec Tephra.LinesPf

/-! ### 1. colour path = plain path under the identity painter -/

theorem writeRiser_colour (h : Highlight) (line : Nat) (st : Riser) (active : Bool) :
    writeRiser plainPaint true h line st active = writeRiser plainPaint false h line st active := by
  cases st <;> simp [writeRiser, plainPaint]

theorem writeRisers_colour (line : Nat) (act : Option Nat) (i : Nat) (hls : List Highlight)
    (sts : List Riser) :
    writeRisers plainPaint true line act i hls sts = writeRisers plainPaint false line act i hls sts := by
  induction hls generalizing i sts with
  | nil => simp [writeRisers]
  | cons h hs ih =>
    cases sts with
    | nil => simp [writeRisers]
    | cons st sts => simp only [writeRisers, writeRiser_colour, ih]

theorem writeMessage_colour (h : Highlight) (line : Nat) (sp : Bool) (hs : h.startMsg = none) :
    writeMessage plainPaint true h line sp = writeMessage plainPaint false h line sp := by
  simp [writeMessage, plainPaint, hs]

theorem writeGutter_colour (v : String) (w : Nat) :
    writeGutter plainPaint true v w = writeGutter plainPaint false v w := by
  simp [writeGutter, plainPaint, String.append_assoc]

theorem messageRows_colour (w line : Nat) (hls : List Highlight) (multi : Bool) (i : Nat)
    (rest : List Highlight) (sts : List Riser) (hr : ∀ h ∈ rest, h.startMsg = none) :
    messageRows plainPaint true w line hls multi i rest sts =
      messageRows plainPaint false w line hls multi i rest sts := by
  induction rest generalizing i sts with
  | nil => simp [messageRows]
  | cons mh rest ih =>
    have hmh : mh.startMsg = none := hr mh (by simp)
    have hrest : ∀ h ∈ rest, h.startMsg = none := fun h hh => hr h (by simp [hh])
    simp only [messageRows, writeRisers_colour, writeMessage_colour _ _ _ hmh, writeGutter_colour,
      ih _ _ hrest]

theorem lineRows_colour (src : Source) (w : Nat) (hls : List Highlight) (pieces : List Span)
    (sts : List Riser) (hr : ∀ h ∈ hls, h.startMsg = none) :
    lineRows plainPaint true src w hls pieces sts = lineRows plainPaint false src w hls pieces sts := by
  induction pieces generalizing sts with
  | nil => simp [lineRows]
  | cons sp more ih =>
    simp only [lineRows, writeRisers_colour, messageRows_colour _ _ _ _ _ _ _ hr, writeGutter_colour, ih]

theorem writeMType_colour (m : MType) : writeMType plainPaint true m = writeMType plainPaint false m := by
  cases m <;> simp [writeMType, plainPaint, MType.label]

theorem writeNote_colour (n : Note) : writeNote plainPaint true n = writeNote plainPaint false n := by
  simp [writeNote, writeMType_colour]

theorem writeNote_colour' : writeNote plainPaint true = writeNote plainPaint false :=
  funext writeNote_colour

theorem writeSpanDisplay_colour (src : Source) (sd : SpanDisplay)
    (hr : ∀ h ∈ sd.highlights, h.startMsg = none) :
    writeSpanDisplay plainPaint true src sd = writeSpanDisplay plainPaint false src sd := by
  simp only [writeSpanDisplay, lineRows_colour _ _ _ _ _ hr, writeGutter_colour, writeNote_colour]
  simp [plainPaint]

theorem writeSpanDisplays_colour (src : Source) (sds : List SpanDisplay)
    (hr : ∀ sd ∈ sds, ∀ h ∈ sd.highlights, h.startMsg = none) :
    writeSpanDisplays plainPaint true src sds = writeSpanDisplays plainPaint false src sds := by
  induction sds with
  | nil => simp [writeSpanDisplays]
  | cons sd more ih =>
    have h1 := writeSpanDisplay_colour src sd (hr sd (by simp))
    have h2 := ih (fun sd' hsd => hr sd' (by simp [hsd]))
    simp only [writeSpanDisplays, h1, h2]

theorem writeCodeDisplay_colour (src : Source) (cd : CodeDisplay)
    (hr : ∀ sd ∈ cd.spans, ∀ h ∈ sd.highlights, h.startMsg = none) (hc : cd.codeId = none) :
    writeCodeDisplay plainPaint src { cd with colorEnabled := true } =
      writeCodeDisplay plainPaint src { cd with colorEnabled := false } := by
  simp only [writeCodeDisplay, writeSpanDisplays_colour _ _ hr, writeNote_colour', hc, writeMType_colour]
  simp [plainPaint, String.append_assoc]

/-! ### 4. gutters -/

theorem rep_length_one (c : String) (hc : c.length = 1) (n : Nat) : (rep c n).length = n := by
  induction n with
  | zero => simp [rep]
  | succ n ih =>
    simp only [rep, List.replicate_succ, String.join_cons, String.length_append] at ih ⊢
    omega

theorem padLeft_length (w : Nat) (s : String) : (padLeft w s).length = max w s.length := by
  simp only [padLeft, String.length_append, rep_length_one " " (by decide)]
  omega

theorem toString_length_mono {a b : Nat} (h : a ≤ b) : (toString a).length ≤ (toString b).length := by
  simp only [Nat.toString_eq_repr]
  have hpos : 0 < b.repr.length := Nat.length_repr_pos
  have hb : b < 10 ^ b.repr.length := (Nat.length_repr_le_iff hpos).mp (Nat.le_refl _)
  exact (Nat.length_repr_le_iff hpos).mpr (by omega)

theorem gutterWidth_mono {line last : Nat} (h : line ≤ last) :
    (toString line).length ≤ gutterWidth last := toString_length_mono h

theorem padLeft_gutter_length {line last : Nat} (h : line ≤ last) :
    (padLeft (gutterWidth last) (toString line)).length = gutterWidth last := by
  rw [padLeft_length]
  have := gutterWidth_mono h
  omega

theorem padLeft_empty_length (w : Nat) : (padLeft w "").length = w := by
  rw [padLeft_length]; simp

/-! ### 2. the pieces of a canonical span clip to the lines of the text under it -/

/-- piece `i` clips (no panic) to line `i`, and carries line number `n + i` -/
def PiecesOK (src : Source) : Nat → List Text → List Span → Prop
  | _, [], [] => True
  | n, l :: ls, sp :: sps =>
    src.clipped sp = .ok ⟨l, src.metrics, sp.s⟩ ∧
      Source.sliceBytes src.text sp.s.byte sp.e.byte = .ok l ∧ sp.s.line = n ∧
      PiecesOK src (n + 1) ls sps
  | _, _, _ => False

theorem pieces_ok (m : Metrics) (R : Text) : ∀ (L : List Text) (a mid : Text),
    linesOf m mid = L → Text.WF (a ++ mid ++ R) → aligned m a (mid ++ R) = true →
    aligned m (a ++ mid) R = true →
    PiecesOK ⟨a ++ mid ++ R, m, Pos.zero⟩ (canon m a).line L
      ((piecesFrom m (a ++ mid ++ R) a.length L).map (·.2)) := by
  intro L
  induction L with
  | nil => intro a mid hL; exact absurd hL (linesOf_ne_nil m mid)
  | cons l ls ih =>
    intro a mid hL hwf ha1 ha2
    obtain ⟨rem, hmid, hcase⟩ := linesOf_decomp m mid l ls hL
    have hT : a ++ mid ++ R = a ++ l ++ (rem ++ R) := by rw [hmid]; simp
    have e1 : (a ++ mid ++ R).take a.length = a := take_prefix (mid ++ R) (by simp)
    have e2 : (a ++ mid ++ R).take (a.length + l.length) = a ++ l :=
      take_prefix' (rem ++ R) hT (by simp)
    have hal2 : aligned m (a ++ l) (rem ++ R) = true := by
      rcases hcase with ⟨hrem, _⟩ | ⟨rest, hb, _⟩
      · subst hrem; simp at hmid; subst hmid; simpa using ha2
      · exact aligned_of_starts_break (breakAt_append R hb)
    have hclip := clipped_correct m a l (rem ++ R) (by rw [← hT]; exact hwf)
      (by rw [hmid] at ha1; simpa [List.append_assoc] using ha1) hal2
    rw [← hT] at hclip
    have hslice : Source.sliceBytes (a ++ mid ++ R) (canon m a).byte (canon m (a ++ l)).byte =
        .ok l := by
      rw [hT]; simp only [canon_byte]
      exact sliceBytes_mid (Text.WF_append.mp (by rw [← hT]; exact hwf)).1
    simp only [piecesFrom, List.map_cons, PiecesOK, e1, e2]
    refine ⟨hclip, hslice, trivial, ?_⟩
    rcases hcase with ⟨hrem, hls⟩ | ⟨rest, hb, hls⟩
    · subst hls; simp [piecesFrom, PiecesOK]
    · obtain ⟨B, hB, hBc, hBl⟩ := breakAt_split hb
      have hT2 : a ++ mid ++ R = (a ++ l ++ B) ++ rest ++ R := by rw [hmid, hB]; simp
      have hlen : a.length + l.length + lbLen m = (a ++ l ++ B).length := by simp [hBl]; omega
      have hal3 : aligned m (a ++ l ++ B) (rest ++ R) = true := aligned_of_ends_break hBc
      have hih := ih (a ++ l ++ B) rest hls.symm (by rw [← hT2]; exact hwf) hal3
        (by have : a ++ l ++ B ++ rest = a ++ mid := by rw [hmid, hB]; simp
            rw [this]; exact ha2)
      have hline : (canon m (a ++ l ++ B)).line = (canon m a).line + 1 := by
        have h1 := canon_line_append (aligned_of_append_right ha1)
        have h2 := canon_line_append (aligned_of_append_right hal3)
        have : a ++ l ++ B ++ rest = a ++ mid := by rw [hmid, hB]; simp
        rw [this] at h2
        rw [hL] at h1; rw [← hls] at h2
        have := linesOf_length_pos m rest
        rw [← hls] at this
        simp at h1; omega
      rw [hT2, hlen, ← hline]
      exact hih

/-- the widened span is itself a canonical span (two aligned cuts) of the text -/
theorem widen_canon (m : Metrics) (a mid z : Text) :
    ∃ a0 mid' rem, a ++ mid ++ z = a0 ++ mid' ++ rem ∧
      widenSpec m a mid z = ⟨canon m a0, canon m (a0 ++ mid')⟩ ∧
      aligned m a0 (mid' ++ rem) = true ∧ aligned m (a0 ++ mid') rem = true := by
  obtain ⟨a0, cl, I, h1, _, _, h4, h5, h6, h7, _⟩ := last_split m a
  obtain ⟨rem, hr, hcase⟩ := curLineSuf_prefix m z
  refine ⟨a0, cl ++ mid ++ curLineSuf m z, rem, ?_, ?_, ?_, ?_⟩
  · conv => lhs; rw [h1, hr]
    simp
  · simp only [widenSpec, h6, h7]
    have : a0 ++ (cl ++ mid ++ curLineSuf m z) = a ++ mid ++ curLineSuf m z := by
      conv => rhs; rw [h1]
      simp
    rw [this]
  · rcases h4 with h | ⟨u, B, hu, hB⟩
    · subst h; simp
    · rw [hu]; exact aligned_of_ends_break hB
  · rcases hcase with ⟨h, _⟩ | ⟨rest, hb, _⟩
    · subst h; simp
    · exact aligned_of_starts_break hb

/-! ### 2b. no panic -/

/-- at most one message per highlight (what the public constructors build) -/
def MsgOK (h : Highlight) : Prop := h.startMsg = none ∨ h.endMsg = none

theorem writeMessage_isSome (paint : Style → String → String) (color : Bool) (h : Highlight)
    (line : Nat) (sp : Bool) (hm : MsgOK h) : ∃ s, writeMessage paint color h line sp = some s := by
  unfold writeMessage
  rcases hm with hm | hm <;> simp only [hm] <;> split <;> (try split) <;> (try split) <;> simp_all

theorem messageRows_ok (paint : Style → String → String) (color : Bool) (w line : Nat)
    (hls : List Highlight) (multi : Bool) (i : Nat) (rest : List Highlight) (sts : List Riser)
    (hr : ∀ h ∈ rest, MsgOK h) :
    ∃ r, messageRows paint color w line hls multi i rest sts = .ok r := by
  induction rest generalizing i sts with
  | nil => exact ⟨_, rfl⟩
  | cons mh rest ih =>
    have hrest : ∀ h ∈ rest, MsgOK h := fun h hh => hr h (by simp [hh])
    unfold messageRows
    split
    · exact ih _ _ hrest
    · obtain ⟨msg, hmsg⟩ := writeMessage_isSome paint color mh line multi (hr mh (by simp))
      simp only [hmsg]
      obtain ⟨⟨more, sts''⟩, hmore⟩ := ih (i + 1)
        (writeRisers paint color line (some i) 0 hls sts).2 hrest
      simp only [hmore]
      exact ⟨_, rfl⟩

theorem lineRows_ok (paint : Style → String → String) (color : Bool) (src : Source) (w : Nat)
    (hls : List Highlight) (hr : ∀ h ∈ hls, MsgOK h) :
    ∀ (n : Nat) (L : List Text) (pieces : List Span) (sts : List Riser), PiecesOK src n L pieces →
      ∃ s, lineRows paint color src w hls pieces sts = .ok s := by
  intro n L pieces
  induction pieces generalizing n L with
  | nil => intro sts _; exact ⟨_, rfl⟩
  | cons sp more ih =>
    intro sts hp
    cases L with
    | nil => simp [PiecesOK] at hp
    | cons l ls =>
      obtain ⟨hclip, _, _, hmore⟩ := hp
      unfold lineRows
      simp only [hclip]
      obtain ⟨⟨msgs, sts2⟩, hmsgs⟩ := messageRows_ok paint color w sp.s.line hls
        (hls.any (·.isMultiline)) 0 hls (writeRisers paint color sp.s.line none 0 hls sts).2 hr
      simp only [hmsgs]
      obtain ⟨rest, hrest⟩ := ih (n + 1) ls sts2 hmore
      simp only [hrest]
      exact ⟨_, rfl⟩

theorem collect_wide (m : Metrics) (a mid z : Text) (hwf : Text.WF (a ++ mid ++ z))
    (ha1 : aligned m a (mid ++ z) = true) (ha2 : aligned m (a ++ mid) z = true) :
    (SplitLines.ofSpan ⟨canon m a, canon m (a ++ mid)⟩ ⟨a ++ mid ++ z, m, Pos.zero⟩).collect
        ((canon m (a ++ mid)).line - (canon m a).line + 2) = .ok (splitSpec m a mid z, 0) := by
  apply split_correct m a mid z hwf ha1 ha2
  have h1 := canon_line_append (aligned_of_append_right ha1)
  have := linesOf_length_pos m mid
  omega

theorem spanDisplay_new_ok (m : Metrics) (a mid z : Text) (hwf : Text.WF (a ++ mid ++ z))
    (ha1 : aligned m a (mid ++ z) = true) (ha2 : aligned m (a ++ mid) z = true)
    (name : Option String) :
    SpanDisplay.new ⟨a ++ mid ++ z, m, Pos.zero⟩ name ⟨canon m a, canon m (a ++ mid)⟩ =
      .ok { name := name, span := widenSpec m a mid z, highlights := [], notes := [],
            gutter := gutterWidth (canon m (a ++ mid)).line } := by
  simp only [SpanDisplay.new, widen_correct m a mid z hwf ha1 ha2]

/-- a display whose span is the widening of a canonical span renders without panic -/
theorem writeSpanDisplay_ok (paint : Style → String → String) (color : Bool)
    (m : Metrics) (a mid z : Text) (hwf : Text.WF (a ++ mid ++ z))
    (sd : SpanDisplay) (hspan : sd.span = widenSpec m a mid z)
    (hm : ∀ h ∈ sd.highlights, MsgOK h)
    (hlen : (sd.highlights.filter (·.isMultiline)).length < 256) :
    ∃ s, writeSpanDisplay paint color ⟨a ++ mid ++ z, m, Pos.zero⟩ sd = .ok s := by
  obtain ⟨a0, mid', rem, hT, hw, hb1, hb2⟩ := widen_canon m a mid z
  have hwf' : Text.WF (a0 ++ mid' ++ rem) := by rw [← hT]; exact hwf
  unfold writeSpanDisplay
  have hlen' : ¬ (sd.highlights.filter (·.isMultiline)).length ≥ 256 := by omega
  simp only [hlen', if_false, hspan, hw, hT, collect_wide m a0 mid' rem hwf' hb1 hb2]
  have hp := pieces_ok m rem (linesOf m mid') a0 mid' rfl hwf' hb1 hb2
  obtain ⟨rows, hrows⟩ := lineRows_ok paint color ⟨a0 ++ mid' ++ rem, m, Pos.zero⟩ sd.gutter
    sd.highlights hm _ _ _
    (sd.highlights.map fun h => if h.isMultiline then Riser.waiting else Riser.unused) hp
  simp only [splitSpec, hrows]
  exact ⟨_, rfl⟩

theorem writeSpanDisplays_ok (paint : Style → String → String) (color : Bool) (src : Source)
    (sds : List SpanDisplay) (h : ∀ sd ∈ sds, ∃ s, writeSpanDisplay paint color src sd = .ok s) :
    ∃ s, writeSpanDisplays paint color src sds = .ok s := by
  induction sds with
  | nil => exact ⟨_, rfl⟩
  | cons sd more ih =>
    obtain ⟨a, ha⟩ := h sd (by simp)
    obtain ⟨b, hb⟩ := ih (fun sd' hsd => h sd' (by simp [hsd]))
    exact ⟨a ++ b, by simp only [writeSpanDisplays, ha, hb]⟩

theorem writeCodeDisplay_ok (paint : Style → String → String) (src : Source) (cd : CodeDisplay)
    (h : ∀ sd ∈ cd.spans, ∃ s, writeSpanDisplay paint cd.colorEnabled src sd = .ok s) :
    ∃ s, writeCodeDisplay paint src cd = .ok s := by
  obtain ⟨b, hb⟩ := writeSpanDisplays_ok paint cd.colorEnabled src cd.spans h
  simp only [writeCodeDisplay, hb]
  exact ⟨_, rfl⟩

/-! ### 3. every line once, in order -/

/-- a block of mark rows below source line `line`: each is the blank gutter, riser columns and
the mark text of a highlight that has a mark on that line -/
inductive MsgRows (w : Nat) (hls : List Highlight) (line : Nat) : String → Prop
  | nil : MsgRows w hls line ""
  | cons {h : Highlight} {ris msg more : String} : h ∈ hls → h.hasMessageForLine line = true →
      writeMessage plainPaint false h line (hls.any (·.isMultiline)) = some msg →
      MsgRows w hls line more →
      MsgRows w hls line (padLeft w "" ++ " | " ++ ris ++ msg ++ more)

theorem messageRows_shape (w line : Nat) (hls : List Highlight) (i : Nat) (rest : List Highlight)
    (sts : List Riser) (hsub : ∀ h ∈ rest, h ∈ hls) (s : String) (sts' : List Riser)
    (h : messageRows plainPaint false w line hls (hls.any (·.isMultiline)) i rest sts = .ok (s, sts')) :
    MsgRows w hls line s := by
  induction rest generalizing i sts s sts' with
  | nil => simp [messageRows] at h; rw [h.1]; exact .nil
  | cons mh rest ih =>
    have hrest : ∀ h ∈ rest, h ∈ hls := fun h hh => hsub h (by simp [hh])
    unfold messageRows at h
    split at h
    · exact ih _ _ hrest _ _ h
    · rename_i hmsg
      split at h
      rename_i ris stsA _
      split at h
      · exact absurd h (by simp)
      · rename_i msg hwm
        split at h
        · exact absurd h (by simp)
        · rename_i more sts'' hmore
          simp only [Res.ok.injEq, Prod.mk.injEq] at h
          rw [← h.1]
          have := ih _ _ hrest _ _ hmore
          simp only [writeGutter, Bool.false_eq_true, if_false]
          simpa only [String.append_assoc] using
            MsgRows.cons (w := w) (ris := ris)
              (hsub mh (by simp)) (by simpa using hmsg) hwm this

/-- the source rows: one per piece, in order, each `<line no> | <risers>[ ]<text>⏎` followed by
its mark rows -/
theorem lineRows_shape (src : Source) (w : Nat) (hls : List Highlight) :
    ∀ (n : Nat) (L : List Text) (pieces : List Span) (sts : List Riser) (s : String),
      PiecesOK src n L pieces → lineRows plainPaint false src w hls pieces sts = .ok s →
      ∃ rows : List String, s = String.join rows ∧ rows.length = L.length ∧
        ∀ i l, L[i]? = some l → ∃ ris msgs,
          rows[i]? = some (padLeft w (toString (n + i)) ++ " | " ++ ris ++
            (if hls.any (·.isMultiline) then " " else "") ++ textString l ++ "\n" ++ msgs) ∧
          MsgRows w hls (n + i) msgs := by
  intro n L pieces
  induction pieces generalizing n L with
  | nil =>
    intro sts s hp h
    cases L with
    | nil => simp [lineRows] at h; exact ⟨[], by simp [← h], rfl, by simp⟩
    | cons l ls => simp [PiecesOK] at hp
  | cons sp more ih =>
    intro sts s hp h
    cases L with
    | nil => simp [PiecesOK] at hp
    | cons l ls =>
      obtain ⟨hclip, _, hline, hmore⟩ := hp
      unfold lineRows at h
      simp only [hclip] at h
      split at h
      · exact absurd h (by simp)
      · rename_i msgs sts2 hmsgs
        split at h
        · exact absurd h (by simp)
        · rename_i rest hrest
          obtain ⟨rows, hr1, hr2, hr3⟩ := ih (n + 1) ls sts2 rest hmore hrest
          simp only [Res.ok.injEq] at h
          have hm := messageRows_shape w sp.s.line hls 0 hls _ (fun _ hh => hh) msgs sts2 hmsgs
          refine ⟨(writeGutter plainPaint false (toString sp.s.line) w ++
              (writeRisers plainPaint false sp.s.line none 0 hls sts).1 ++
              (if hls.any (·.isMultiline) then " " else "") ++ textString l ++ "\n" ++ msgs) :: rows,
            ?_, by simp [hr2], ?_⟩
          · rw [← h, String.join_cons, ← hr1]
          · intro i l' hl'
            cases i with
            | zero =>
              simp at hl'; subst hl'
              refine ⟨(writeRisers plainPaint false sp.s.line none 0 hls sts).1, msgs, ?_, ?_⟩
              · simp only [List.getElem?_cons_zero, writeGutter, Bool.false_eq_true, if_false, hline,
                  Nat.add_zero]
              · rw [← hline]; exact hm
            | succ j =>
              simp only [List.getElem?_cons_succ] at hl' ⊢
              have e : n + (j + 1) = n + 1 + j := by omega
              rw [e]
              exact hr3 j l' hl'

/-- widening does not change the last line number -/
theorem widen_e_line (m : Metrics) (a mid z : Text) (ha2 : aligned m (a ++ mid) z = true) :
    (widenSpec m a mid z).e.line = (canon m (a ++ mid)).line := by
  obtain ⟨rem, hr, _⟩ := curLineSuf_prefix m z
  have hal : aligned m (a ++ mid) (curLineSuf m z) = true := by
    rw [hr] at ha2; exact aligned_of_append_right ha2
  have hnb : linesOf m (curLineSuf m z) = [curLineSuf m z] := curLineSuf_noBreak m z
  simp only [widenSpec]
  rw [canon_line_append hal, hnb]; simp

/-- the shape of a rendered display (plain): header, blank gutter row, then one block per line
of the text under the widened span, in order, each starting with the source row of that line -/
theorem writeSpanDisplay_shape (m : Metrics) (a mid z : Text) (hwf : Text.WF (a ++ mid ++ z))
    (sd : SpanDisplay) (hspan : sd.span = widenSpec m a mid z) (out : String)
    (h : writeSpanDisplay plainPaint false ⟨a ++ mid ++ z, m, Pos.zero⟩ sd = .ok out) :
    ∃ a0 mid' rem rows, a ++ mid ++ z = a0 ++ mid' ++ rem ∧
      sd.span = ⟨canon m a0, canon m (a0 ++ mid')⟩ ∧
      aligned m a0 (mid' ++ rem) = true ∧ aligned m (a0 ++ mid') rem = true ∧
      sd.span.e.line = sd.span.s.line + ((linesOf m mid').length - 1) ∧
      out = rep " " sd.gutter ++ "-->" ++ " " ++ (match sd.name with | some n => n ++ ":" | none => "")
              ++ "(" ++ showSpan sd.span ++ ")\n" ++ (padLeft sd.gutter "" ++ " | ") ++ "\n" ++
            String.join rows ++
            String.join (sd.notes.map fun n =>
              rep " " sd.gutter ++ " = " ++ writeNote plainPaint false n ++ "\n") ∧
      rows.length = (linesOf m mid').length ∧
      ∀ i l, (linesOf m mid')[i]? = some l → ∃ ris msgs,
        rows[i]? = some (padLeft sd.gutter (toString (sd.span.s.line + i)) ++ " | " ++ ris ++
          (if sd.highlights.any (·.isMultiline) then " " else "") ++ textString l ++ "\n" ++ msgs) ∧
        MsgRows sd.gutter sd.highlights (sd.span.s.line + i) msgs := by
  obtain ⟨a0, mid', rem, hT, hw, hb1, hb2⟩ := widen_canon m a mid z
  have hwf' : Text.WF (a0 ++ mid' ++ rem) := by rw [← hT]; exact hwf
  have hsp : sd.span = ⟨canon m a0, canon m (a0 ++ mid')⟩ := by rw [hspan, hw]
  have hp := pieces_ok m rem (linesOf m mid') a0 mid' rfl hwf' hb1 hb2
  by_cases hlen : (sd.highlights.filter (·.isMultiline)).length ≥ 256
  · simp [writeSpanDisplay, hlen] at h
  · simp only [writeSpanDisplay, hlen, if_false, hT, hsp,
      collect_wide m a0 mid' rem hwf' hb1 hb2] at h
    split at h
    · exact absurd h (by simp)
    · rename_i rows0 hrows
      obtain ⟨rows, hr1, hr2, hr3⟩ := lineRows_shape _ sd.gutter sd.highlights _ _ _ _ _ hp hrows
      simp only [Res.ok.injEq] at h
      refine ⟨a0, mid', rem, rows, hT, hsp, hb1, hb2, ?_, ?_, hr2, ?_⟩
      · rw [hsp]; exact canon_line_append (aligned_of_append_right hb1)
      · rw [← h, hr1, hsp]; rfl
      · rw [hsp]; exact hr3

/-! ### 5. layout: the riser state machine against the index-based specification -/

/-- the highlights on which the layout theorem is proved -/
def HlOK (first last : Nat) (h : Highlight) : Prop :=
  wellBehaved first last h = true ∧ h.startMsg = none ∧ ∃ msg, h.endMsg = some msg

def rowLine : RowId → Nat
  | .src l => l
  | .mark l _ => l

def rowAct : RowId → Option Nat
  | .src _ => none
  | .mark _ k => some k

/-- does the end-mark row of highlight `(h, k)` occur among the first `i` rows -/
def endSeen (ids : List RowId) (h : Highlight) (k i : Nat) : Bool :=
  (ids.take i).any (· == RowId.mark h.span.e.line k)

/-- closed form of the riser state of highlight `(h, k)` before row `i` -/
def stateAt (ids : List RowId) (h : Highlight) (k i : Nat) : Riser :=
  if !h.isMultiline then .unused
  else if i = 0 then .waiting
  else if endSeen ids h k i then .ended else .started

theorem findIdx_le_iff {α} (p : α → Bool) : ∀ (l : List α) (i : Nat),
    (match l.findIdx? p with
      | some e => decide (i ≤ e)
      | none => true) = !(l.take i).any p := by
  intro l
  induction l with
  | nil => intro i; simp
  | cons x xs ih =>
    intro i
    rw [List.findIdx?_cons]
    cases i with
    | zero => by_cases hx : p x <;> simp [hx] <;> split <;> simp
    | succ j =>
      by_cases hx : p x
      · simp [hx]
      · have := ih j
        simp only [hx, Bool.false_eq_true, if_false, List.take_succ_cons, List.any_cons, Bool.false_or]
        rw [← this]
        cases xs.findIdx? p <;> simp

/-- the specification's riser character, in closed form, for a well-behaved multi-line highlight
of a display whose first row is the source row of the highlight's start line -/
theorem riserChar_closed (tail : List RowId) (h : Highlight) (k i : Nat) (hcol : h.span.s.col = 0) :
    riserChar (RowId.src h.span.s.line :: tail) h k i =
      if i = 0 then "/" else if endSeen (RowId.src h.span.s.line :: tail) h k i then " " else "|" := by
  have hle := findIdx_le_iff (· == RowId.mark h.span.e.line k) (RowId.src h.span.s.line :: tail) i
  unfold riserChar endSeen
  simp only [hcol, beq_self_eq_true, if_true]
  generalize List.findIdx? (fun x => x == RowId.mark h.span.e.line k)
    (RowId.src h.span.s.line :: tail) = o at hle ⊢
  generalize (List.take i (RowId.src h.span.s.line :: tail)).any
    (fun x => x == RowId.mark h.span.e.line k) = b at hle ⊢
  rw [List.findIdx?_cons]
  cases o <;> cases i <;> cases b <;> simp_all

theorem hasMsg_single {h : Highlight} {first last : Nat} (hok : HlOK first last h)
    (hm : h.isMultiline = false) (l : Nat) :
    h.hasMessageForLine l = (h.span.s.line == l) ∧ hasMark h l = (h.span.s.line == l) := by
  obtain ⟨_, hs, msg, he⟩ := hok
  simp only [Highlight.isMultiline, bne_eq_false_iff_eq] at hm
  constructor
  · simp only [Highlight.hasMessageForLine, hs, he, hm]
    cases h.span.e.line == l <;> simp
  · simp [hasMark, Highlight.isMultiline, hm]

theorem hasMsg_multi {h : Highlight} {first last : Nat} (hok : HlOK first last h)
    (hm : h.isMultiline = true) (l : Nat) :
    h.span.s.col = 0 ∧ h.span.s.line = first ∧ h.span.e.col ≠ 0 ∧ h.span.s.line ≠ h.span.e.line ∧
    h.hasMessageForLine l = (h.span.e.line == l) ∧ hasMark h l = (h.span.e.line == l) := by
  obtain ⟨hw, hs, msg, he⟩ := hok
  simp only [wellBehaved, hm, Bool.not_true, Bool.false_or, Bool.and_eq_true, beq_iff_eq,
    bne_iff_ne, ne_eq, decide_eq_true_eq] at hw
  obtain ⟨⟨⟨h1, h2⟩, h3⟩, h4⟩ := hw
  have hne : h.span.s.line ≠ h.span.e.line := by
    simpa [Highlight.isMultiline] using hm
  refine ⟨h1, h2, h3, hne, ?_, ?_⟩
  · simp [Highlight.hasMessageForLine, hs, he, h1]
  · simp [hasMark, hm, h1]

theorem endSeen_succ (ids : List RowId) (h : Highlight) (k i : Nat) (r : RowId)
    (hr : ids[i]? = some r) :
    endSeen ids h k (i + 1) = (endSeen ids h k i || r == RowId.mark h.span.e.line k) := by
  simp [endSeen, List.take_add_one, hr, List.any_append]

/-- one step of the riser state machine = the specification's riser character at that row -/
theorem riser_step (first last : Nat) (tail : List RowId) (h : Highlight) (k i : Nat) (r : RowId)
    (hok : HlOK first last h) (hr : (RowId.src first :: tail)[i]? = some r) :
    writeRiser plainPaint false h (rowLine r) (stateAt (RowId.src first :: tail) h k i)
        (rowAct r == some k) =
      (if h.isMultiline then riserChar (RowId.src first :: tail) h k i else "",
       stateAt (RowId.src first :: tail) h k (i + 1)) := by
  cases hm : h.isMultiline with
  | false => simp [stateAt, hm, writeRiser]
  | true =>
    obtain ⟨h1, h2, h3, h4, h5, _⟩ := hasMsg_multi hok hm (rowLine r)
    subst h2
    have hsucc := endSeen_succ _ h k i r hr
    rw [if_pos rfl, riserChar_closed tail h k i h1]
    cases i with
    | zero =>
      simp only [List.getElem?_cons_zero, Option.some.injEq] at hr
      subst hr
      have hne : (h.span.e.line == h.span.s.line) = false := by
        simp; exact fun hh => h4 hh.symm
      have h5' : h.hasMessageForLine h.span.s.line = false := by
        simpa [rowLine, hne] using h5
      simp [stateAt, hm, writeRiser, rowAct, rowLine, h5', h1, endSeen]
    | succ j =>
      have hcol : (h.span.e.col == 0) = false := by simp [h3]
      cases hseen : endSeen (RowId.src h.span.s.line :: tail) h k (j + 1) with
      | true =>
        simp [stateAt, hm, writeRiser, hseen, hsucc]
      | false =>
        have hiff : (rowAct r == some k && h.span.e.line == rowLine r) =
            (r == RowId.mark h.span.e.line k) := by
          cases r with
          | src l => simp [rowAct]
          | mark l k' =>
            rw [Bool.eq_iff_iff]
            simp only [rowAct, rowLine, Bool.and_eq_true, beq_iff_eq,
              RowId.mark.injEq, Option.some.injEq]
            omega
        simp only [stateAt, hm, Bool.not_true, Bool.false_eq_true, if_false, Nat.add_one_ne_zero,
          hseen, writeRiser, h5, hcol, Bool.and_false, Bool.false_and, hsucc, Bool.false_or, hiff]
        cases r == RowId.mark h.span.e.line k <;> simp

theorem range_map_getElem? {α β} (l : List α) (F : Nat → Option α → β) :
    (List.range l.length).map (fun k => F k l[k]?) = l.mapIdx (fun k a => F k (some a)) := by
  apply List.ext_getElem?
  intro i
  by_cases hi : i < l.length
  · simp [hi, List.getElem?_eq_getElem hi]
  · have h1 : l.length ≤ i := by omega
    simp [List.getElem?_eq_none, h1]

theorem risers_eq (ids : List RowId) (hls : List Highlight) (i : Nat) :
    Spec.risers ids hls i =
      String.join (hls.mapIdx fun k h => if h.isMultiline then riserChar ids h k i else "") := by
  exact congrArg String.join (range_map_getElem? hls (fun k o => match o with
    | some h => if h.isMultiline then riserChar ids h k i else ""
    | none => ""))

/-- the riser states of all highlights before row `i` -/
def statesAt (ids : List RowId) (hls : List Highlight) (i : Nat) : List Riser :=
  hls.mapIdx fun k h => stateAt ids h k i

theorem writeRisers_step_aux (first last : Nat) (tail : List RowId) (i : Nat) (r : RowId)
    (hr : (RowId.src first :: tail)[i]? = some r) : ∀ (hs : List Highlight) (k0 : Nat),
    (∀ h ∈ hs, HlOK first last h) →
    writeRisers plainPaint false (rowLine r) (rowAct r) k0 hs
        (hs.mapIdx fun t h => stateAt (RowId.src first :: tail) h (k0 + t) i) =
      (String.join (hs.mapIdx fun t h =>
          if h.isMultiline then riserChar (RowId.src first :: tail) h (k0 + t) i else ""),
       hs.mapIdx fun t h => stateAt (RowId.src first :: tail) h (k0 + t) (i + 1)) := by
  intro hs
  induction hs with
  | nil => intro k0 _; simp [writeRisers]
  | cons h hs ih =>
    intro k0 hok
    have e : ∀ {β} (F : Nat → Highlight → β),
        (fun t h => F (k0 + (t + 1)) h) = (fun t h => F (k0 + 1 + t) h) := by
      intro β F; funext t h; congr 1; omega
    have hih := ih (k0 + 1) (fun h' hh => hok h' (by simp [hh]))
    simp only [List.mapIdx_cons, writeRisers, Nat.add_zero,
      riser_step first last tail h k0 i r (hok h (by simp)) hr, String.join_cons]
    rw [e (fun k h => stateAt (RowId.src first :: tail) h k i),
      e (fun k h => stateAt (RowId.src first :: tail) h k (i + 1)),
      e (fun k h => if h.isMultiline then riserChar (RowId.src first :: tail) h k i else ""), hih]

theorem writeRisers_step (first last : Nat) (tail : List RowId) (hls : List Highlight)
    (hok : ∀ h ∈ hls, HlOK first last h) (i : Nat) (r : RowId)
    (hr : (RowId.src first :: tail)[i]? = some r) :
    writeRisers plainPaint false (rowLine r) (rowAct r) 0 hls
        (statesAt (RowId.src first :: tail) hls i) =
      (Spec.risers (RowId.src first :: tail) hls i, statesAt (RowId.src first :: tail) hls (i + 1)) := by
  have := writeRisers_step_aux first last tail i r hr hls 0 hok
  simpa only [Nat.zero_add, statesAt, risers_eq] using this

theorem rep_eq (c : String) (n : Nat) : String.join (List.replicate n c) = rep c n := rfl

/-- the mark row text of the model is the specification's mark text -/
theorem writeMessage_markText {first last : Nat} {h : Highlight} (hok : HlOK first last h)
    (line : Nat) (multi : Bool) (hmsg : h.hasMessageForLine line = true) :
    writeMessage plainPaint false h line multi = some (markText h line multi ++ "\n") := by
  obtain ⟨_, hs, msg, he⟩ := id hok
  cases hm : h.isMultiline with
  | false =>
    obtain ⟨h1, _⟩ := hasMsg_single hok hm line
    rw [h1] at hmsg
    have hse : h.span.e.line = h.span.s.line := by
      simp only [Highlight.isMultiline, bne_eq_false_iff_eq] at hm; exact hm.symm
    simp only [writeMessage, markText, hm, hs, he, hse, hmsg, Bool.and_self, if_true,
      Bool.false_eq_true, if_false, rep_eq, Bool.not_false]
    split <;> simp [String.append_assoc]
  | true =>
    obtain ⟨h1, h2, h3, h4, h5, _⟩ := hasMsg_multi hok hm line
    rw [h5] at hmsg
    have hsl : (h.span.s.line == line) = false := by
      simp only [beq_iff_eq] at hmsg
      simp; omega
    have hpos : h.span.e.col > 0 := by omega
    simp only [writeMessage, markText, hm, hs, he, hsl, hmsg, Bool.false_and, Bool.false_eq_true,
      if_false, if_true, rep_eq, Bool.not_true, hpos]
    simp [String.append_assoc]

/-- mark rows of line `line` for the highlights `rest`, numbered from `k` -/
def marksOf (line : Nat) : Nat → List Highlight → List RowId
  | _, [] => []
  | k, h :: rest =>
    if h.hasMessageForLine line then RowId.mark line k :: marksOf line (k + 1) rest
    else marksOf line (k + 1) rest

/-- the model's row ids -/
def mIds (hls : List Highlight) (lines : List Nat) : List RowId :=
  lines.flatMap fun l => RowId.src l :: marksOf l 0 hls

/-- the specification's text of row `i` given the riser text `ρ i` and the line text `text` -/
def rowOf (w : Nat) (multi : Bool) (hls : List Highlight) (text : Nat → String) (ρ : Nat → String)
    (i : Nat) : RowId → String
  | .src l => padLeft w (toString l) ++ " | " ++ ρ i ++ (if multi then " " else "") ++ text l
  | .mark l k => padLeft w "" ++ " | " ++ ρ i ++ (hls[k]?.map (markText · l multi)).getD ""

theorem shift_fun {α β} (j : Nat) (F : Nat → α → β) :
    (fun t a => F (j + (t + 1)) a) = (fun t a => F (j + 1 + t) a) := by
  funext t a; congr 1; omega

section Layout
variable (w : Nat) (hls : List Highlight) (text : Nat → String) (ρ : Nat → String)
  (σ : Nat → List Riser) (ids : List RowId) (first last : Nat)

/-- the mark rows below one source line are the specification's rows at those indices -/
theorem messageRows_spec
    (STEP : ∀ i r, ids[i]? = some r →
      writeRisers plainPaint false (rowLine r) (rowAct r) 0 hls (σ i) = (ρ i, σ (i + 1)))
    (line : Nat) (multi : Bool) : ∀ (rest preH : List Highlight) (j : Nat),
    hls = preH ++ rest → (∀ h ∈ rest, HlOK first last h) →
    (∀ t r, (marksOf line preH.length rest)[t]? = some r → ids[j + t]? = some r) →
    messageRows plainPaint false w line hls multi preH.length rest (σ j) =
      .ok (String.join ((marksOf line preH.length rest).mapIdx fun t r =>
              rowOf w multi hls text ρ (j + t) r ++ "\n"),
           σ (j + (marksOf line preH.length rest).length)) := by
  intro rest
  induction rest with
  | nil => intro preH j _ _ _; simp [messageRows, marksOf]
  | cons mh rest ih =>
    intro preH j hh hok hpos
    have hh' : hls = (preH ++ [mh]) ++ rest := by rw [hh]; simp
    have hlen : (preH ++ [mh]).length = preH.length + 1 := by simp
    have hok' : ∀ h ∈ rest, HlOK first last h := fun h hm => hok h (by simp [hm])
    by_cases hmsg : mh.hasMessageForLine line = true
    · have hm0 : (marksOf line preH.length (mh :: rest)) =
          RowId.mark line preH.length :: marksOf line (preH.length + 1) rest := by
        simp [marksOf, hmsg]
      rw [hm0] at hpos ⊢
      have hstep := STEP j (RowId.mark line preH.length) (by simpa using hpos 0 _ rfl)
      simp only [rowLine, rowAct] at hstep
      have hih := ih (preH ++ [mh]) (j + 1) hh' hok' (by
        intro t r ht
        rw [hlen] at ht
        have := hpos (t + 1) r (by simpa using ht)
        have e : j + 1 + t = j + (t + 1) := by omega
        rw [e]; exact this)
      rw [hlen] at hih
      have hk : hls[preH.length]? = some mh := by rw [hh]; simp
      have hrow : rowOf w multi hls text ρ j (RowId.mark line preH.length) =
          padLeft w "" ++ " | " ++ ρ j ++ markText mh line multi := by simp [rowOf, hk]
      unfold messageRows
      simp only [hmsg, Bool.not_true, Bool.false_eq_true, if_false, hstep,
        writeMessage_markText (hok mh (by simp)) line multi hmsg, hih, List.mapIdx_cons,
        String.join_cons, Nat.add_zero, hrow, writeGutter,
        shift_fun j (fun t r => rowOf w multi hls text ρ t r ++ "\n"), List.length_cons]
      simp only [String.append_assoc, Res.ok.injEq, Prod.mk.injEq, true_and]
      congr 1; omega
    · have hm0 : (marksOf line preH.length (mh :: rest)) = marksOf line (preH.length + 1) rest := by
        simp [marksOf, hmsg]
      rw [hm0] at hpos ⊢
      have hih := ih (preH ++ [mh]) j hh' hok' (by rw [hlen]; exact hpos)
      rw [hlen] at hih
      unfold messageRows
      simp at hmsg
      simp [hmsg, hih]

/-- the loop over the source lines produces the specification's rows, in order -/
theorem lineRows_spec (src : Source)
    (STEP : ∀ i r, ids[i]? = some r →
      writeRisers plainPaint false (rowLine r) (rowAct r) 0 hls (σ i) = (ρ i, σ (i + 1)))
    (hok : ∀ h ∈ hls, HlOK first last h) : ∀ (pieces : List Span) (j : Nat),
    (∀ sp ∈ pieces, ∃ piece, src.clipped sp = .ok piece ∧ textString piece.text = text sp.s.line) →
    (∀ t r, (mIds hls (pieces.map (·.s.line)))[t]? = some r → ids[j + t]? = some r) →
    lineRows plainPaint false src w hls pieces (σ j) =
      .ok (String.join ((mIds hls (pieces.map (·.s.line))).mapIdx fun t r =>
              rowOf w (hls.any (·.isMultiline)) hls text ρ (j + t) r ++ "\n")) := by
  intro pieces
  induction pieces with
  | nil => intro j _ _; simp [lineRows, mIds]
  | cons sp more ih =>
    intro j hclip hpos
    obtain ⟨piece, hc, htext⟩ := hclip sp (by simp)
    have hids : mIds hls ((sp :: more).map (·.s.line)) =
        RowId.src sp.s.line :: (marksOf sp.s.line 0 hls ++ mIds hls (more.map (·.s.line))) := by
      simp [mIds]
    rw [hids] at hpos ⊢
    have hstep := STEP j (RowId.src sp.s.line) (by simpa using hpos 0 _ rfl)
    simp only [rowLine, rowAct] at hstep
    have hmsgs := messageRows_spec w hls text ρ σ ids first last STEP sp.s.line
      (hls.any (·.isMultiline)) hls [] (j + 1) rfl hok (by
        intro t r ht
        simp only [List.length_nil] at ht
        have hlt : t < (marksOf sp.s.line 0 hls).length := (List.getElem?_eq_some_iff.mp ht).1
        have := hpos (t + 1) r (by
          simp only [List.getElem?_cons_succ]
          rw [List.getElem?_append_left hlt]; exact ht)
        have e : j + 1 + t = j + (t + 1) := by omega
        rw [e]; exact this)
    simp only [List.length_nil] at hmsgs
    have hih := ih (j + 1 + (marksOf sp.s.line 0 hls).length)
      (fun sp' hs => hclip sp' (by simp [hs])) (by
        intro t r ht
        have := hpos (1 + (marksOf sp.s.line 0 hls).length + t) r (by
          have e : 1 + (marksOf sp.s.line 0 hls).length + t =
              ((marksOf sp.s.line 0 hls).length + t) + 1 := by omega
          rw [e, List.getElem?_cons_succ, List.getElem?_append_right (by omega)]
          simpa using ht)
        have e : j + 1 + (marksOf sp.s.line 0 hls).length + t =
            j + (1 + (marksOf sp.s.line 0 hls).length + t) := by omega
        rw [e]; exact this)
    have hrow : rowOf w (hls.any (·.isMultiline)) hls text ρ j (RowId.src sp.s.line) =
        padLeft w (toString sp.s.line) ++ " | " ++ ρ j ++
          (if hls.any (·.isMultiline) then " " else "") ++ text sp.s.line := rfl
    have e2 : (fun t r => rowOf w (hls.any (·.isMultiline)) hls text ρ
          (j + 1 + (t + (marksOf sp.s.line 0 hls).length)) r ++ "\n") =
        (fun t r => rowOf w (hls.any (·.isMultiline)) hls text ρ
          (j + 1 + (marksOf sp.s.line 0 hls).length + t) r ++ "\n") := by
      funext t r; congr 2; omega
    unfold lineRows
    simp only [hstep, hc, hmsgs, hih, List.mapIdx_cons, String.join_cons, Nat.add_zero, hrow,
      writeGutter, Bool.false_eq_true, if_false, htext,
      shift_fun j (fun t r => rowOf w (hls.any (·.isMultiline)) hls text ρ t r ++ "\n"),
      List.mapIdx_append, String.join_append, e2]
    simp only [String.append_assoc]

end Layout

/-! ### 5b. the specification's row ids and rows, structurally -/

theorem hasMark_eq {first last : Nat} {h : Highlight} (hok : HlOK first last h) (l : Nat) :
    hasMark h l = h.hasMessageForLine l := by
  cases hm : h.isMultiline with
  | false => obtain ⟨h1, h2⟩ := hasMsg_single hok hm l; rw [h1, h2]
  | true => obtain ⟨_, _, _, _, h1, h2⟩ := hasMsg_multi hok hm l; rw [h1, h2]

theorem marks_eq_aux (first last l : Nat) (hls : List Highlight) : ∀ (rest preH : List Highlight),
    hls = preH ++ rest → (∀ h ∈ rest, HlOK first last h) →
    ((List.range' preH.length rest.length).filter
        (fun k => (hls[k]?.map (hasMark · l)).getD false)).map (RowId.mark l) =
      marksOf l preH.length rest := by
  intro rest
  induction rest with
  | nil => intro preH _ _; simp [marksOf]
  | cons mh rest ih =>
    intro preH hh hok
    have hh' : hls = (preH ++ [mh]) ++ rest := by rw [hh]; simp
    have hk : hls[preH.length]? = some mh := by rw [hh]; simp
    have hih := ih (preH ++ [mh]) hh' (fun h hm => hok h (by simp [hm]))
    simp only [List.length_append, List.length_cons, List.length_nil, Nat.zero_add] at hih
    simp only [List.length_cons, List.range'_succ, List.filter_cons, hk, Option.map_some,
      Option.getD_some, hasMark_eq (hok mh (by simp)) l, marksOf]
    split <;> simp [hih]

theorem rowIds_eq (first last : Nat) (hls : List Highlight) (hok : ∀ h ∈ hls, HlOK first last h)
    (lines : List Nat) : rowIds lines hls = mIds hls lines := by
  unfold rowIds mIds
  congr 1
  funext l
  have := marks_eq_aux first last l hls hls [] rfl hok
  simp only [List.length_nil, ← List.range_eq_range'] at this
  rw [this]

theorem statesAt_zero (ids : List RowId) (hls : List Highlight) :
    statesAt ids hls 0 = hls.map fun h => if h.isMultiline then Riser.waiting else Riser.unused := by
  unfold statesAt
  apply List.ext_getElem?
  intro i
  simp only [List.getElem?_mapIdx, List.getElem?_map]
  cases hls[i]? with
  | none => rfl
  | some h => cases hm : h.isMultiline <;> simp [stateAt, hm]

theorem intercalate_newline : ∀ (L : List String), L ≠ [] →
    "\n".intercalate L ++ "\n" = String.join (L.map (· ++ "\n")) := by
  intro L
  induction L with
  | nil => intro h; exact absurd rfl h
  | cons x xs ih =>
    intro _
    cases xs with
    | nil => simp
    | cons y ys =>
      have := ih (by simp)
      simp only [String.intercalate_cons_cons, List.map_cons, String.join_cons,
        String.append_assoc] at this ⊢
      rw [this]

theorem displayRows_eq (name : Option String) (wide : Span) (w : Nat) (lines : List (Nat × String))
    (hls : List Highlight) :
    displayRows name wide w lines hls =
      [rep " " w ++ "--> " ++ (match name with | some n => n ++ ":" | none => "") ++ "(" ++
          showSpan wide ++ ")", padLeft w "" ++ " | "] ++
      (rowIds (lines.map (·.1)) hls).mapIdx (rowOf w (hls.any (·.isMultiline)) hls
        (fun l => ((lines.find? (·.1 == l)).map (·.2)).getD "")
        (risers (rowIds (lines.map (·.1)) hls) hls)) := by
  unfold displayRows
  simp only
  congr 1
  generalize rowIds (lines.map (·.1)) hls = ids
  apply List.ext_getElem?
  intro i
  by_cases hi : i < ids.length
  · simp only [List.getElem?_map, List.getElem?_range hi, Option.map_some, List.getElem?_mapIdx,
      List.getElem?_eq_getElem hi]
    cases ids[i] <;> rfl
  · have h1 : ids.length ≤ i := by omega
    simp [List.getElem?_eq_none, h1]

/-! ### 5c. the layout theorem -/

theorem map_mapIdx' {α β γ} (f : β → γ) (g : Nat → α → β) (l : List α) :
    (l.mapIdx g).map f = l.mapIdx (fun i a => f (g i a)) := by
  apply List.ext_getElem?
  intro i
  simp only [List.getElem?_map, List.getElem?_mapIdx]
  cases l[i]? <;> rfl

/-- Layout, abstractly in the pieces: whenever `SplitLines` yields `pieces` (at least one, the
first on line `first`), each piece clips to the text that `lines` records for its line number,
and every highlight is well-behaved with one end message, the rendered display is the
specification's rows, each followed by a newline. -/
theorem writeSpanDisplay_layout (src : Source) (sd : SpanDisplay) (pieces : List (Nat × Span))
    (n first last : Nat)
    (hcollect : (SplitLines.ofSpan sd.span src).collect (sd.span.e.line - sd.span.s.line + 2) =
      .ok (pieces, n))
    (hnotes : sd.notes = [])
    (hlen : (sd.highlights.filter (·.isMultiline)).length < 256)
    (hok : ∀ h ∈ sd.highlights, HlOK first last h)
    (lines : List (Nat × String))
    (hlines : lines.map (·.1) = pieces.map (·.2.s.line))
    (hfirst : ∃ rest, pieces.map (·.2.s.line) = first :: rest)
    (hclip : ∀ p ∈ pieces, ∃ piece, src.clipped p.2 = .ok piece ∧
      textString piece.text = ((lines.find? (·.1 == p.2.s.line)).map (·.2)).getD "") :
    writeSpanDisplay plainPaint false src sd =
      .ok ("\n".intercalate (displayRows sd.name sd.span sd.gutter lines sd.highlights) ++ "\n") := by
  obtain ⟨rest, hrest⟩ := hfirst
  have hids : mIds sd.highlights (pieces.map (·.2.s.line)) =
      RowId.src first :: (marksOf first 0 sd.highlights ++ mIds sd.highlights rest) := by
    rw [hrest]; simp [mIds]
  have hmm : (pieces.map (·.2)).map (·.s.line) = pieces.map (·.2.s.line) := by simp
  have hL := lineRows_spec sd.gutter sd.highlights
    (fun l => ((lines.find? (·.1 == l)).map (·.2)).getD "")
    (risers (mIds sd.highlights (pieces.map (·.2.s.line))) sd.highlights)
    (statesAt (mIds sd.highlights (pieces.map (·.2.s.line))) sd.highlights)
    (mIds sd.highlights (pieces.map (·.2.s.line))) first last src
    (by rw [hids]; exact fun i r hr =>
          writeRisers_step first last _ sd.highlights hok i r hr)
    hok (pieces.map (·.2)) 0
    (by intro sp hsp
        obtain ⟨p, hp, rfl⟩ := List.mem_map.mp hsp
        exact hclip p hp)
    (by intro t r ht; rw [hmm] at ht; simpa using ht)
  rw [statesAt_zero, hmm] at hL
  simp only [Nat.zero_add] at hL
  have hlen' : ¬ (sd.highlights.filter (·.isMultiline)).length ≥ 256 := by omega
  unfold writeSpanDisplay
  simp only [hlen', if_false, hcollect, hL, hnotes, List.map_nil, String.join_nil,
    String.append_empty]
  simp only [displayRows_eq, hlines, rowIds_eq first last sd.highlights hok]
  rw [intercalate_newline _ (by simp)]
  simp only [List.append_eq, List.cons_append, List.nil_append, List.map_cons, String.join_cons,
    map_mapIdx', writeGutter, Bool.false_eq_true, if_false, String.append_assoc]
  rfl

/-! ### 5d. the lines of a canonical display -/

/-- (line number, line text) of each piece, as the driver's oracle computes them -/
def pieceLines (t : Text) (pieces : List Span) : List (Nat × String) :=
  pieces.filterMap fun sp =>
    match Source.sliceBytes t sp.s.byte sp.e.byte with
    | .ok mid => some (sp.s.line, textString mid)
    | .panic => none

/-- lines numbered consecutively from `n` -/
def numbered : Nat → List Text → List (Nat × String)
  | _, [] => []
  | n, l :: ls => (n, textString l) :: numbered (n + 1) ls

theorem pieceLines_eq (src : Source) : ∀ (pieces : List Span) (n : Nat) (L : List Text),
    PiecesOK src n L pieces →
    pieceLines src.text pieces = numbered n L ∧
      pieces.map (·.s.line) = (numbered n L).map (·.1) := by
  intro pieces
  induction pieces with
  | nil =>
    intro n L hp
    cases L with
    | nil => simp [pieceLines, numbered]
    | cons l ls => simp [PiecesOK] at hp
  | cons sp more ih =>
    intro n L hp
    cases L with
    | nil => simp [PiecesOK] at hp
    | cons l ls =>
      obtain ⟨_, hs, hline, hmore⟩ := hp
      obtain ⟨h1, h2⟩ := ih (n + 1) ls hmore
      constructor
      · simp only [pieceLines, List.filterMap_cons, hs, numbered, hline] at h1 ⊢
        rw [h1]
      · simp only [List.map_cons, numbered, hline, h2]

theorem numbered_find : ∀ (L : List Text) (n i : Nat) (l : Text), L[i]? = some l →
    (numbered n L).find? (·.1 == n + i) = some (n + i, textString l) := by
  intro L
  induction L with
  | nil => intro n i l h; simp at h
  | cons l0 ls ih =>
    intro n i l h
    cases i with
    | zero => simp at h; subst h; simp [numbered]
    | succ j =>
      simp only [List.getElem?_cons_succ] at h
      have hne : (n == n + (j + 1)) = false := by simp
      have e : n + (j + 1) = n + 1 + j := by omega
      simp only [numbered, List.find?_cons, hne]
      rw [e]; exact ih (n + 1) j l h

theorem pieces_mem (src : Source) : ∀ (pieces : List Span) (n : Nat) (L : List Text),
    PiecesOK src n L pieces → ∀ sp ∈ pieces, ∃ i l, L[i]? = some l ∧ sp.s.line = n + i ∧
      src.clipped sp = .ok ⟨l, src.metrics, sp.s⟩ := by
  intro pieces
  induction pieces with
  | nil => intro n L _ sp hsp; simp at hsp
  | cons sp0 more ih =>
    intro n L hp sp hsp
    cases L with
    | nil => simp [PiecesOK] at hp
    | cons l ls =>
      obtain ⟨hc, _, hline, hmore⟩ := hp
      rcases List.mem_cons.mp hsp with rfl | hm
      · exact ⟨0, l, by simp, by simp [hline], hc⟩
      · obtain ⟨i, l', h1, h2, h3⟩ := ih (n + 1) ls hmore sp hm
        exact ⟨i + 1, l', by simpa using h1, by omega, h3⟩

/-- Layout for a display built from a canonical span: the rendered display is the
specification's rows over the lines that `SplitLines` yields. -/
theorem writeSpanDisplay_layout_canon (m : Metrics) (a mid z : Text)
    (hwf : Text.WF (a ++ mid ++ z)) (sd : SpanDisplay) (hspan : sd.span = widenSpec m a mid z)
    (hnotes : sd.notes = [])
    (hlen : (sd.highlights.filter (·.isMultiline)).length < 256)
    (hok : ∀ h ∈ sd.highlights, HlOK sd.span.s.line sd.span.e.line h) :
    ∃ pieces n,
      (SplitLines.ofSpan sd.span ⟨a ++ mid ++ z, m, Pos.zero⟩).collect
        (sd.span.e.line - sd.span.s.line + 2) = .ok (pieces, n) ∧
      writeSpanDisplay plainPaint false ⟨a ++ mid ++ z, m, Pos.zero⟩ sd =
        .ok ("\n".intercalate (displayRows sd.name sd.span sd.gutter
              (pieceLines (a ++ mid ++ z) (pieces.map (·.2))) sd.highlights) ++ "\n") := by
  obtain ⟨a0, mid', rem, hT, hw, hb1, hb2⟩ := widen_canon m a mid z
  have hwf' : Text.WF (a0 ++ mid' ++ rem) := by rw [← hT]; exact hwf
  have hcol := collect_wide m a0 mid' rem hwf' hb1 hb2
  have hp := pieces_ok m rem (linesOf m mid') a0 mid' rfl hwf' hb1 hb2
  have hsp : sd.span = ⟨canon m a0, canon m (a0 ++ mid')⟩ := by rw [hspan, hw]
  rw [hT]
  refine ⟨splitSpec m a0 mid' rem, 0, by rw [hsp]; exact hcol, ?_⟩
  obtain ⟨hl1, hl2⟩ := pieceLines_eq _ _ _ _ hp
  simp only [] at hl1
  have hL : ∃ l0 ls, linesOf m mid' = l0 :: ls := by
    cases h : linesOf m mid' with
    | nil => exact absurd h (linesOf_ne_nil m mid')
    | cons l0 ls => exact ⟨l0, ls, rfl⟩
  obtain ⟨l0, ls, hLs⟩ := hL
  have hmap : (splitSpec m a0 mid' rem).map (·.2.s.line) =
      ((splitSpec m a0 mid' rem).map (·.2)).map (·.s.line) := by simp
  apply writeSpanDisplay_layout _ sd (splitSpec m a0 mid' rem) 0 sd.span.s.line sd.span.e.line
    (by rw [hsp]; exact hcol) hnotes hlen hok
  · rw [hmap]
    simp only [splitSpec] at hl1 hl2 ⊢
    rw [hl1, hl2]
  · rw [hmap]
    simp only [splitSpec] at hl2 ⊢
    rw [hl2, hLs, hsp]
    exact ⟨(numbered ((canon m a0).line + 1) ls).map (·.1), by simp [numbered]⟩
  · intro p hpm
    have hpm' : p.2 ∈ (splitSpec m a0 mid' rem).map (·.2) := List.mem_map.mpr ⟨p, hpm, rfl⟩
    obtain ⟨i, l, h1, h2, h3⟩ := pieces_mem _ _ _ _ hp p.2 hpm'
    refine ⟨_, h3, ?_⟩
    simp only [splitSpec] at hl1 ⊢
    rw [hl1, h2, numbered_find _ _ _ _ h1]
    rfl

/-! ### 5e. the whole report -/

theorem writeSpanDisplays_join (src : Source) (rowsOf : SpanDisplay → List String) :
    ∀ (sds : List SpanDisplay),
    (∀ sd ∈ sds, rowsOf sd ≠ [] ∧
      writeSpanDisplay plainPaint false src sd = .ok ("\n".intercalate (rowsOf sd) ++ "\n")) →
    writeSpanDisplays plainPaint false src sds =
      .ok (String.join ((sds.flatMap rowsOf).map (· ++ "\n"))) := by
  intro sds
  induction sds with
  | nil => intro _; simp [writeSpanDisplays]
  | cons sd more ih =>
    intro h
    obtain ⟨hne, hsd⟩ := h sd (by simp)
    have hmore := ih (fun sd' hm => h sd' (by simp [hm]))
    simp only [writeSpanDisplays, hsd, hmore, intercalate_newline _ hne, List.flatMap_cons,
      List.map_append, String.join_append]

/-- the whole plain report is the specification's report rows, once every display is -/
theorem writeCodeDisplay_layout (src : Source) (cd : CodeDisplay) (hcolor : cd.colorEnabled = false)
    (hnotes : cd.notes = []) (linesFor : SpanDisplay → List (Nat × String))
    (h : ∀ sd ∈ cd.spans, writeSpanDisplay plainPaint false src sd =
      .ok ("\n".intercalate (displayRows sd.name sd.span sd.gutter (linesFor sd) sd.highlights) ++ "\n")) :
    writeCodeDisplay plainPaint src cd =
      .ok ("\n".intercalate (reportRows cd.mtype cd.message
        (cd.spans.map fun sd => (sd.name, sd.span, sd.gutter, linesFor sd, sd.highlights))) ++ "\n") := by
  have hj := writeSpanDisplays_join src
    (fun sd => displayRows sd.name sd.span sd.gutter (linesFor sd) sd.highlights) cd.spans
    (fun sd hsd => ⟨by simp [displayRows], h sd hsd⟩)
  unfold writeCodeDisplay
  simp only [hcolor, hj, hnotes, List.map_nil, String.join_nil, String.append_empty,
    Bool.false_eq_true, if_false, writeMType]
  rw [reportRows, intercalate_newline _ (by simp), List.flatMap_map]
  simp only [List.map_cons, String.join_cons, String.append_assoc]

/-! ### 6. stripping the escape codes of one painted string -/

open Tephra.Fam.RenderF in
/-- `stripAnsi.go` without the fuel -/
def strip' : List Nat → Bool → List Nat
  | [], _ => []
  | c :: rest, true => if c == 109 then strip' rest false else strip' rest true
  | c :: rest, false => if c == 27 then strip' rest true else c :: strip' rest false

open Tephra.Fam.RenderF in
theorem go_eq_strip' : ∀ (cs : List Nat) (f : Nat) (b : Bool), cs.length < f →
    stripAnsi.go f cs b = strip' cs b := by
  intro cs
  induction cs with
  | nil => intro f b h; cases f <;> simp [stripAnsi.go, strip']
  | cons c rest ih =>
    intro f b h
    cases f with
    | zero => simp at h
    | succ n =>
      have hn : rest.length < n := by simp at h; omega
      cases b <;> simp [stripAnsi.go, strip', ih n _ hn]

theorem strip'_plain (cs rest : List Nat) (h : ∀ c ∈ cs, c ≠ 27) :
    strip' (cs ++ rest) false = cs ++ strip' rest false := by
  induction cs with
  | nil => rfl
  | cons c cs ih =>
    have hc : (c == 27) = false := by simpa using h c (by simp)
    simp only [List.cons_append, strip', hc, Bool.false_eq_true, if_false,
      ih (fun c' hc' => h c' (by simp [hc']))]

open Tephra.Fam.RenderF in
/-- removing the escape sequences from one painted string gives the string back -/
theorem stripAnsi_ansi (st : Style) (s : String) (h : ∀ c ∈ s.toList, c.toNat ≠ 27) :
    stripAnsi ((ansi st s).toList.map (·.toNat)) = s.toList.map (·.toNat) := by
  unfold stripAnsi
  rw [go_eq_strip' _ _ _ (Nat.lt_succ_self _)]
  have hs : ∀ c ∈ s.toList.map (·.toNat), c ≠ 27 := by
    intro c hc
    obtain ⟨ch, hch, rfl⟩ := List.mem_map.mp hc
    exact h ch hch
  have key : ∀ rest, strip' (s.toList.map (·.toNat) ++ rest) false =
      s.toList.map (·.toNat) ++ strip' rest false := fun rest => strip'_plain _ rest hs
  obtain ⟨color, bold⟩ := st
  cases color <;> cases bold <;>
    simp [ansi, String.toList_append, List.map_append, strip', key]

end Tephra.RenderPf
