/-
  C02 — every parse terminates, including under error recovery.

  The model `run` (TephraModel/Run.lean) turns every Rust loop into a
  fuel-consuming recursion; `RRes.fuel` is "still running".  Proved here, for an
  arbitrary user scanner satisfying the scanner contract `ScanOK` (a scanned
  token is non-empty and ends inside the text):

  * `C02_fuel_mono` — the fuel is not a bound on behaviour: a result obtained with
    fuel `n` is the result with every `m ≥ n`.
  * `C02_cursor_mono` — a successful parser returns a lexer that is not behind the
    one it was given, and inside the text (also for `either`, `maybe`, `recover*`,
    `bracket*`, which hand back clones taken earlier).
  * `C02_recovery_loops_terminate` — `advance_to_recover`, `match_nested_brackets`
    and the retry loops of `stabilize` / `list` terminate by the measure
    `len - cursor`: a stabilising retry only ever starts from a strictly later
    position ("never retry from a position already tried without having consumed
    input"), and every round of `list` consumes at least its separator or the
    token that is in the way.
  * `C02` (= `C02_statement`) — with the explicit fuel `B len g` (structural in the
    grammar, linear in the length of the text) `run` never runs out of fuel, and
    the result does not change with more.  Repetition combinators (`repeat*`,
    `intersperse*`) are covered under the hypothesis of the property — the
    repeated parser consumes at least one token whenever it succeeds (`RepOK`,
    which is necessary: the Rust loops forever on `repeat(0, None, empty)`);
    `C02_terminates_loopFree` is the hypothesis-free case.

  * `C02_F07r_*` — the productivity hypothesis is *semantic*, and finding F07r (the closure
    of `recover_after` keeps its `found` flag when a recovery scan runs off the end of the
    text after having seen its token; C12) makes a grammar violate it that consumes input
    in every iteration by design:
    `repeat(0, None, recover_option(stabilize(one(a)), recover_after(';')))` on the text
    `d ; c ;` with a sink.  After iteration 1 (recovered past the first `;`), the nested
    `stabilize` of every later iteration scans to the end of the text, sees the last `;`
    and leaves the flag set; the enclosing `recover_option` then asks the same closure,
    is told "finished" on the very first token, and returns `ok(None)` with the lexer it
    was given.  `C02_F07r_body_not_productive`: `Prog` is false for this body (concrete
    well-formed lexer and world, reached by iteration 1); `C02_F07r_not_RepOK`: so `RepOK`
    is false for the grammar and `C02` does not apply (is not contradicted);
    `C02_F07r_stuck_iteration`: one iteration from the stuck state returns the same lexer and
    the same world with one more report in the log (any fuel ≥ 5, any log);
    `C02_F07r_hang`: the run exhausts *every* fuel (`∀ n`), by the general
    `C02_repeat_inplace_hang` (an unbounded `repeat` whose body succeeds in place from an
    invariant set of worlds never returns).  Contrasts, by evaluation with symbolic fuel:
    without the nested `stabilize` (`C02_F07r_contrast_no_stabilize`) and on the text
    `d ; c` (`C02_F07r_contrast_no_trailing_token`) the same repetition returns `[None]`.
    A `recover_before(';')` body is *not* a contrast: it hangs on the same text too
    (`C02_before_body_hang`) — it never consumes the `;`, no flag involved; that is the
    intended use of the hypothesis.

  Assumption of the model made explicit: the `id` of a `recover`/`list` node stands
  for the identity of its Rust closure object, so two nodes carrying the same id
  must carry the same predicate (`IdsFunctional`; always true for grammars read by
  `GWire.parseG`, which numbers the nodes).  Without it the *model* (not the
  Rust) can loop: `recover 1 0 (list 1 0 0 none (maybe (one 0)) 4 [5]) (beforeAny [1])`
  on the text `b` with a sink.
-/
import TephraModel.Run
import TephraProofs.Termination
import TephraProofs.TermWitness

namespace Tephra.Props
open Tephra Tephra.Term

theorem C02_stabilize_no_retry_without_progress (R : RunEnv) (n : Nat) (a : G) (lx lx1 : Lx) (ctx : Ctx)
    (e : PErr) (W W1 : World)
    (h : advanceToRecover R lx W = (some lx1, W1)) (hc : lx1.cursor = lx.cursor) :
    stabLoop R (n + 1) a lx ctx (.err e) W = (.err e, W1) := by
  simp [stabLoop, h, hc]

/-- With no recovery state installed `advance_to_recover` does not move, so a
failing `stabilize` returns after a single attempt. -/
theorem C02_stabilize_without_recover_state (R : RunEnv) (n : Nat) (a : G) (lx : Lx) (ctx : Ctx)
    (e : PErr) (W : World) (h : lx.recover = none) :
    stabLoop R (n + 1) a lx ctx (.err e) W = (.err e, W) := by
  simp [stabLoop, advanceToRecover, h]

/-- **Fuel is not a bound on behaviour**: if `run` does not run out of fuel with `n`,
it returns the same result (and world) with every `m ≥ n`.  The same holds for every
function of the mutual block (`Term.mono_all`) and for `matchLoop`
(`Term.matchLoop_fuel_mono`). -/
theorem C02_fuel_mono (R : RunEnv) (n m : Nat) (hm : n ≤ m) (g : G) (lx : Lx) (ctx : Ctx) (W : World)
    (h : (run R n g lx ctx W).1 ≠ .fuel) : run R m g lx ctx W = run R n g lx ctx W :=
  run_fuel_mono R hm g lx ctx W h

/-- the same for all ten fuelled functions of the mutual block at once. -/
theorem C02_fuel_mono_all (R : RunEnv) (n m : Nat) (hm : n ≤ m) : MonoAt R n m := mono_all R n m hm

/-- **Cursor monotonicity**: under `ScanOK`, from a well-formed lexer (`WF`: the lexer
of this text, cursor inside the text, lookahead ahead of the cursor) a successful parse
returns a well-formed lexer whose cursor is not behind the input's and not past the end
of the text — for every constructor of `G`. -/
theorem C02_cursor_mono {R : RunEnv} {m : Metrics} {len : Nat} (ok : ScanOK R.E m len) (n : Nat) (g : G) (lx : Lx)
    (ctx : Ctx) (W : World) (wf : WF m len lx) {v : Val} {lx' : Lx} (h : (run R n g lx ctx W).1 = .ok v lx') :
    WF m len lx' ∧ lx.cursor.byte ≤ lx'.cursor.byte ∧ lx'.cursor.byte ≤ len :=
  run_cursor_mono ok n g lx ctx W wf h

/-- a delivered token moves the cursor strictly forward; every lexer method keeps `WF`. -/
theorem C02_next_progress {R : RunEnv} {m : Metrics} {len : Nat} (ok : ScanOK R.E m len) {lx : Lx}
    (wf : WF m len lx) : WF m len (lx.next R.E).2 ∧ lx.cursor.byte ≤ (lx.next R.E).2.cursor.byte ∧
      ((lx.next R.E).1.isSome → lx.cursor.byte < (lx.next R.E).2.cursor.byte) :=
  ⟨(next_wf ok wf).1, (next_wf ok wf).2.1, (next_wf ok wf).2.2.1⟩

/-- **The recovery loops terminate.**
1. `advance_to_recover`: from `len - cursor + 1` on, the result of its loop does not
   depend on the fuel (the model gives it `len + 2`): it never stops for lack of fuel.
2. `match_nested_brackets` never runs out of fuel with `len - cursor + 1` (it gets `len + 2`).
3. `stabilize`: if each attempt of the body terminates (fuel `k`), the retry loop does with
   `len - cursor + 1 + k` — every retry starts from a strictly later position.
4. the same for the retry loop around a `list` value.
5. the separator step of `list` consumes input whenever the loop goes round again. -/
theorem C02_recovery_loops_terminate {R : RunEnv} {m : Metrics} {len : Nat} {T : Nat → Rec}
    (ok : ScanOK R.E m len) :
    (∀ id n k (lx : Lx) W, WF m len lx → len - lx.cursor.byte + 1 ≤ n → n ≤ k →
      recoverLoop R id k lx W = recoverLoop R id n lx W) ∧
    (∀ opens closes abort sp n (lexer : Lx) ol opened, WF m len lexer → len - lexer.cursor.byte + 1 ≤ n →
      matchLoop R opens closes abort sp n lexer ol opened ≠ .fuel) ∧
    (∀ k a ctx, Consistent T a →
      (∀ lx1 W1, WF m len lx1 → WOK T W1 → (run R k (.unrecoverable a) lx1 ctx W1).1 ≠ .fuel) →
      ∀ (lx : Lx) res W, WF m len lx → WOK T W → res ≠ .fuel →
        (stabLoop R (len - lx.cursor.byte + 1 + k) a lx ctx res W).1 ≠ .fuel) ∧
    (∀ k dv id pat body ctx, T id = pat → Consistent T body →
      (∀ lx1 W1, WF m len lx1 → WOK T W1 →
        (recoverDefault R k dv id pat body lx1 ctx.withoutSink W1).1 ≠ .fuel) →
      ∀ (lx : Lx) res W, WF m len lx → WOK T W → res ≠ .fuel →
        (stabValue R (len - lx.cursor.byte + 1 + k) dv id pat body lx ctx res W).1 ≠ .fuel) ∧
    (∀ n id sep abort (lexer1 lexer2 lexer3 : Lx) t2 ctx W1 W2 v, WF m len lexer1 → WOK T W1 →
      T id = .sepOrAbort sep abort → lexer1.peek R.E = (some t2, lexer2) → ¬ abort.contains t2.kind = true →
      recoverDefault R n .dflt id (.sepOrAbort sep abort) (.discard (.one sep)) lexer2 ctx W1 = (.ok v lexer3, W2) →
      lexer2.cursor.byte < lexer3.cursor.byte) :=
  ⟨fun id n k lx W wf hn hk => recoverLoop_fuel ok id n k lx W wf hn hk,
   fun opens closes abort sp n lexer ol opened wf hn =>
     matchLoop_terminates ok opens closes abort sp n lexer ol opened wf hn,
   fun _ _ _ hc hk lx res W wf hw hres =>
     stabLoop_terminates ok hc hk _ lx res W wf hw (Nat.le_refl _) hres _ (Nat.le_refl _),
   fun _ _ _ _ _ _ hT hc hk lx res W wf hw hres =>
     stabValue_terminates ok hT hc hk _ lx res W wf hw (Nat.le_refl _) hres _ (Nat.le_refl _),
   fun _ _ _ _ _ _ _ _ _ _ _ _ wf hw hT hp hab h => sep_progress ok wf hw hT hp hab h⟩

/-- The full statement of C02 about the model: for every scanner satisfying the scanner
contract, every grammar whose recovery ids determine their predicate and whose repetitions
are productive, every well-formed lexer (in particular the initial one), context and
consistent world (in particular the initial one): `run` with fuel `B len g` does not run
out of fuel, and any larger fuel gives the same result. -/
def C02_statement : Prop :=
  ∀ (R : RunEnv) (m : Metrics) (len : Nat), ScanOK R.E m len →
  ∀ (g : G), IdsFunctional (recIds g) → RepOK R m len g →
  ∀ (lx : Lx) (ctx : Ctx) (W : World), WF m len lx → WOK (tableOf (recIds g)) W →
    (run R (B len g) g lx ctx W).1 ≠ .fuel ∧ ∀ n, B len g ≤ n → run R n g lx ctx W = run R (B len g) g lx ctx W

/-- **C02.** -/
theorem C02 : C02_statement := by
  intro R m len ok g hids hrep lx ctx W wf hw
  have hc := consistent_tableOf g hids
  exact ⟨terminates ok g hc hrep (Nat.le_refl _) lx ctx W wf hw,
    fun n hn => terminates_stable ok g hc hrep hn lx ctx W wf hw⟩

/-- C02 from the initial state of a parse. -/
theorem C02_initial {R : RunEnv} {m : Metrics} {len : Nat} (ok : ScanOK R.E m len) (g : G)
    (hids : IdsFunctional (recIds g)) (hrep : RepOK R m len g) (s0 : Nat) (ctx : Ctx) :
    (run R (B len g) g (Lexer.new s0 m len) ctx World.init).1 ≠ .fuel :=
  (C02 R m len ok g hids hrep _ ctx _ (wf_new s0) WOK_init).1

/-- the hypothesis-free case: no `repeat*` / `intersperse*` in the grammar (`list`,
`stabilize`, `recover*`, `bracket*`, `up_to`, … included). -/
theorem C02_terminates_loopFree {R : RunEnv} {m : Metrics} {len : Nat} (ok : ScanOK R.E m len) (g : G)
    (hlf : loopFree g = true) (hids : IdsFunctional (recIds g)) (lx : Lx) (ctx : Ctx) (W : World)
    (wf : WF m len lx) (hw : WOK (tableOf (recIds g)) W) :
    (run R (B len g) g lx ctx W).1 ≠ .fuel :=
  (C02 R m len ok g hids (repOK_of_loopFree g hlf) lx ctx W wf hw).1

/-- the name used in the plan for the hypothesis-free fragment. -/
theorem C02_terminates_partial {R : RunEnv} {m : Metrics} {len : Nat} (ok : ScanOK R.E m len) (g : G)
    (hlf : loopFree g = true) (hids : IdsFunctional (recIds g)) (lx : Lx) (ctx : Ctx) (W : World)
    (wf : WF m len lx) (hw : WOK (tableOf (recIds g)) W) :
    (run R (B len g) g lx ctx W).1 ≠ .fuel :=
  C02_terminates_loopFree ok g hlf hids lx ctx W wf hw

/-- the loop of `list`: if the item parser terminates with fuel `k`, the loop does with
`len - cursor + k + len + 7`, whatever the item parser consumes (each round that continues
has consumed at least the separator or the token in the way). -/
theorem C02_list_loop_terminates {R : RunEnv} {m : Metrics} {len : Nat} {T : Nat → Rec} (ok : ScanOK R.E m len)
    {v id lo : Nat} {hi : Option Nat} {a : G} {sep : Nat} {abort : List Nat} {ctx : Ctx} {k : Nat}
    (hc : Consistent T a) (hT : T id = .sepOrAbort sep abort)
    (ht : ∀ n, k ≤ n → ∀ lx ctx W, WF m len lx → WOK T W → (run R n a lx ctx W).1 ≠ .fuel)
    (lexer : Lx) (W : World) (vals : List Val) (wf : WF m len lexer) (hw : WOK T W) :
    (listLoop R (len - lexer.cursor.byte + (k + len + 7)) v id lo hi a sep abort lexer ctx W vals).1 ≠ .fuel :=
  listLoop_term ok hc hT ht _ lexer W vals wf hw (Nat.le_refl _) _ (Nat.le_refl _)

/-- the single-token parsers are productive (usable to discharge `RepOK`). -/
theorem C02_prog_one {R : RunEnv} {m : Metrics} {len : Nat} (ok : ScanOK R.E m len) (k : Nat) :
    Prog R m len (.one k) := by
  intro n lx ctx W v lx' wf h
  cases n with
  | zero => simp [run] at h
  | succ n =>
    have hn := next_wf ok wf
    simp only [run] at h
    split at h
    · next t lx1 heq =>
      rw [heq] at hn
      split at h
      · cases h; exact hn.2.2.1 rfl
      · cases h
    · cases h

/-! ### F07r and termination -/

section F07r
open Tephra.TermWitness

/-- An unbounded `repeat` whose repeated parser — after a first successful iteration
ending at `lxS` in a world satisfying `Inv` — succeeds from `lxS` in every `Inv`-world with
the same lexer `lxS` and an `Inv`-world again, exhausts every fuel. -/
theorem C02_repeat_inplace_hang {R : RunEnv} {body : G} {lxS : Lx} {ctx : Ctx} {Inv : World → Prop} {k : Nat}
    (step : ∀ n W, Inv W → ∃ v W', run R (n + k) body lxS ctx W = (.ok v lxS, W') ∧ Inv W')
    {lx0 : Lx} {W0 W1 : World} {k0 : Nat} {v0 : Val}
    (first : ∀ n, run R (n + k0) body lx0 ctx W0 = (.ok v0 lxS, W1)) (h1 : Inv W1) (v lo : Nat) :
    ∀ n, (run R n (.repeat_ v lo none body) lx0 ctx W0).1 = .fuel :=
  repeat_inplace_hang step first h1 v lo

/-- The body `recover_option(stabilize(one(a)), recover_after(';'))` (closure 7) is not
productive on `d ; c ;` (kinds 3 5 2 5, table scanner): from the well-formed lexer `lxS`
(cursor after the first `;`, peeked at `c`, recover state `some 7`) and the world `W`
reached by the first iteration from the initial state (closure 7 registered, flag clear,
one report) the body succeeds and returns a lexer with the same cursor (indeed `lxS`). -/
theorem C02_F07r_body_not_productive :
    (∃ (lx : Lx) (W : World) (v : Val) (lx' : Lx),
      WF TermWitness.m0 4 lx ∧
      run TermWitness.R 5 TermWitness.body (Lexer.new 0 TermWitness.m0 4) ⟨true, [], false⟩ World.init = (.ok .none lx, W) ∧
      lx.recover = some 7 ∧ lx.cursor = ⟨2, 0, 2⟩ ∧
      W.specs = [(7, .after 5)] ∧ W.found = [] ∧
      (run TermWitness.R 5 TermWitness.body lx ⟨true, [], false⟩ W).1 = .ok v lx' ∧ lx'.cursor = lx.cursor) ∧
    ¬ Prog TermWitness.R TermWitness.m0 4 TermWitness.body :=
  ⟨⟨lxS, WS [e0] [], .none, lxS, wfS, first_iter 0, rfl, rfl, rfl, rfl, congrArg Prod.fst (stuck_iter 0 [e0] []), rfl⟩,
   body_not_productive⟩

/-- one iteration from the stuck state, for every fuel ≥ 5 and every log / probe log:
same lexer, same world but for one more report (`RecoverError`) in the log. -/
theorem C02_F07r_stuck_iteration (n : Nat) (L : List PErr) (Pr : List String) :
    run TermWitness.R (n + 5) TermWitness.body lxS ⟨true, [], false⟩ ⟨[(7, .after 5)], [], L, Pr⟩ =
      (.ok .none lxS, ⟨[(7, .after 5)], [], L ++ [⟨[], .recover⟩], Pr⟩) :=
  stuck_iter n L Pr

/-- **The hang**: `repeat(0, None, recover_option(stabilize(one(a)), recover_after(';')))`
on `d ; c ;` with a sink, from the initial state, exhausts every fuel. -/
theorem C02_F07r_hang :
    ∀ n, (run TermWitness.R n TermWitness.g (Lexer.new 0 TermWitness.m0 4) ⟨true, [], false⟩ World.init).1 = .fuel :=
  hang

/-- … so the hypothesis `RepOK` of `C02` is false for this grammar on this text (it has to
be: the scanner satisfies `ScanOK`, the ids are functional, the initial state is
well-formed), and `C02` is not contradicted. -/
theorem C02_F07r_not_RepOK : ¬ RepOK TermWitness.R TermWitness.m0 4 TermWitness.g := not_repOK

example : ScanOK TermWitness.R.E TermWitness.m0 4 ∧ IdsFunctional (recIds TermWitness.g) := by
  refine ⟨ok0, ?_⟩
  intro p hp q hq _
  simp [TermWitness.g, TermWitness.body, recIds] at hp hq
  rw [hp, hq]

/-- `RepOK` false, derived from `C02` and the hang (the other hypotheses hold). -/
example : ¬ RepOK TermWitness.R TermWitness.m0 4 TermWitness.g := by
  intro h
  exact C02_initial ok0 TermWitness.g
    (by intro p hp q hq _; simp [TermWitness.g, TermWitness.body, recIds] at hp hq; rw [hp, hq]) h 0 _
    (C02_F07r_hang _)

/-- contrast: without the nested `stabilize` the repetition returns `[None]` (the flag is
left set by the failed second iteration — F07r, harmless here). -/
theorem C02_F07r_contrast_no_stabilize (n : Nat) :
    run TermWitness.R (n + 8) (.repeat_ 0 0 none (.recover 0 7 (.one 0) (.after 5))) (Lexer.new 0 TermWitness.m0 4)
      ⟨true, [], false⟩ World.init = (.ok (.list [.none]) lxS, WA [e0, eC] []) :=
  noStab_terminates n

/-- contrast: the same grammar on `d ; c` (no `;` for the failing scan to see) returns `[None]`. -/
theorem C02_F07r_contrast_no_trailing_token (n : Nat) :
    run Short.R3 (n + 9) TermWitness.g (Lexer.new 0 TermWitness.m0 3) ⟨true, [], false⟩ World.init =
      (.ok (.list [.none]) Short.lxT, WS [e0, eR] []) :=
  Short.terminates n

/-- not a contrast: with `recover_before(';')` the same repetition hangs on the same text
as well (it never consumes the `;`; no flag involved). -/
theorem C02_before_body_hang :
    ∀ n, (run TermWitness.R n (.repeat_ 0 0 none (.recover 0 7 (.stabilize (.one 0)) (.before 5)))
      (Lexer.new 0 TermWitness.m0 4) ⟨true, [], false⟩ World.init).1 = .fuel :=
  Before.hang

end F07r

/-! ### non-vacuity -/

namespace Witness

/-- three one-byte tokens of kinds 0, 1, 0. -/
def scanW (s : Nat) (_m : Metrics) (p : Pos) : Option (Tok × Pos) × Nat :=
  if p.byte < 3 then (some (⟨p.byte % 2, 0⟩, ⟨p.byte + 1, 0, p.byte + 1⟩), s + 1) else (none, s)

def RW : RunEnv := ⟨⟨scanW, fun _ _ => true, fun _ b => ⟨b, 0, b⟩⟩, []⟩
def mW : Metrics := ⟨.lf, 4⟩

theorem scanW_ok : ScanOK RW.E mW 3 := by
  constructor
  · intro s p tok adv s' h
    simp only [RW, scanW] at h
    split at h
    · cases h; simp; omega
    · cases h
  · intro s p h
    simp only [RW, scanW]
    rw [if_neg (by omega)]

/-- `stabilize(list(one 0, sep 1, abort [2]))` followed by a repetition of `one 0`. -/
def gW : G := .both (.stabilize (.list 1 0 0 none (.one 0) 1 [2])) (.repeat_ 0 0 none (.one 0))

example : (run RW (B 3 gW) gW (Lexer.new 0 mW 3) ⟨true, [], false⟩ World.init).1 ≠ .fuel :=
  C02_initial scanW_ok gW
    (by intro p hp q hq _; simp [gW, recIds] at hp hq; rw [hp, hq])
    (by simp only [gW, RepOK]; exact ⟨trivial, C02_prog_one scanW_ok 0, trivial⟩) 0 _

end Witness

end Tephra.Props
