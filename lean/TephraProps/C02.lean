/-
  C02 — every parse terminates, including under error recovery.
  INTERIM file.  Proved here about the model (after the `fix:` commit to
  `stabilize`): a stabilising retry is attempted only after the lexer has
  moved — when `advance_to_recover` leaves the cursor where it was, the failure
  is returned instead of retrying ("never retry from a position already tried
  without having consumed input").  The fuel-bound theorem (`run` never runs
  out of fuel above an explicit bound) is in progress; the `term` family
  (watchdog on the real parse + fuel in the model) carries the statement.
-/
import TephraModel.Run

namespace Tephra.Props
open Tephra

theorem C02_stabilize_no_retry_without_progress (R : RunEnv) (n : Nat) (a : G) (lx lx1 : Lx) (ctx : Ctx)
    (e : PErr) (W W1 : World)
    (h : advanceToRecover R lx W = (some lx1, W1)) (hc : lx1.cursor = lx.cursor) :
    stabLoop R (n + 1) a lx ctx (.err e) W = (.err e, W1) := by
  simp [stabLoop, h, hc]

/-- With no recovery state installed `advance_to_recover` does not move, so a
failing `stabilize` returns after a single attempt. -/
theorem C02_stabilize_without_recover_state (R : RunEnv) (n : Nat) (a : G) (lx : Lx) (ctx : Ctx)
    (e : PErr) (W : World) (h : lx.recover = none) :
    stabLoop R (n + 1) a lx ctx (.err e) W = (.err e, W) := by
  simp [stabLoop, advanceToRecover, h]

end Tephra.Props
