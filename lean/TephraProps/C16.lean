/-
  C16 — rendered reports show the right lines with aligned, correctly placed marks.
  INTERIM file.  Proved here about the model of display.rs / highlight.rs: the
  colour code paths and the plain code paths produce the same text once the
  painting function is the identity — for the gutter, for every riser state and
  for the mark rows of every highlight the public API can build (no start
  message) — which is the per-piece form of "the plain rendering equals the
  coloured rendering with escape codes removed"; and the gutter is
  right-aligned to the given width followed by ` | `.  The layout theorem
  (`writeCodeDisplay` = `Spec.reportRows` for well-behaved highlights) is in
  progress; the `render` / `rendercolor` correspondence families (exact output
  strings, real ANSI codes included) + the layout specification as oracle carry
  the statement meanwhile.  Recorded finding F10 is replayed by the check.
-/
import TephraModel.Render
import TephraModel.Spec.RenderSpec

namespace Tephra.Props
open Tephra Tephra.Render

theorem C16_gutter_shape (v : String) (w : Nat) :
    writeGutter plainPaint false v w = padLeft w v ++ " | " := rfl

theorem C16_gutter_colour_path_agrees (v : String) (w : Nat) :
    writeGutter plainPaint true v w = writeGutter plainPaint false v w := by
  simp [writeGutter, plainPaint, String.append_assoc]

theorem C16_riser_colour_path_agrees (h : Highlight) (line : Nat) (st : Riser) (active : Bool) :
    writeRiser plainPaint true h line st active = writeRiser plainPaint false h line st active := by
  cases st <;> simp [writeRiser, plainPaint]

theorem C16_mark_row_colour_path_agrees (h : Highlight) (line : Nat) (sp : Bool) (hs : h.startMsg = none) :
    writeMessage plainPaint true h line sp = writeMessage plainPaint false h line sp := by
  simp [writeMessage, plainPaint, hs]

example : padLeft 3 "10" = " 10" := by decide

end Tephra.Props
