/-
  C16 — rendered reports show the right lines with aligned, correctly placed marks.

  English.  Take any text, line-ending style, tab width ≥ 1 and character widths,
  and a report whose span displays are built by `SpanDisplay::new` from spans whose
  two ends are aligned character boundaries carrying their canonical positions
  (as in C18).  Then, for the model of display.rs / highlight.rs / message.rs /
  note.rs (which reproduces the real output byte for byte on the `render` /
  `rendercolor` families):

  * `C16_colour_path_agrees`: when no highlight has a start message (what
    `Highlight::new` builds) and there is no error code, the colour code path
    with the identity painter produces exactly the text of the plain code path —
    colour is the plain rendering up to painting.  (Piecewise forms:
    `C16_gutter_colour_path_agrees`, `C16_riser_colour_path_agrees`,
    `C16_mark_row_colour_path_agrees`.)
  * `C16_render_total`, `C16_render_total_report` (the renderer half of C01):
    `SpanDisplay::new` succeeds and writing the display / the whole report never
    panics, for any painter and either colour setting, provided no highlight
    carries two messages (the `todo!()`), and fewer than 256 highlights are
    multi-line (the riser-width conversion).  The other panic sites
    (`widen_to_line`, `split_lines`' `expect`, `clipped` of every line piece)
    are proved unreachable.
  * `C16_lines_once_in_order`: the body of a plain display is, after the header
    row and the blank gutter row, exactly one block per line of the text under
    the widened span, in order; block `i` starts with the source row
    `<line number first+i right-aligned> | <risers>[ ]<text of line i verbatim>⏎`
    and continues with that line's mark rows only (each the blank gutter, riser
    columns and the mark text of a highlight that has a mark on that line).
  * `C16_gutter_aligned`: `{:>w$}` yields `max w len` characters; the number of
    decimal digits is monotone, so with the gutter width `SpanDisplay::new`
    chooses (digits of the span's last line; widening keeps the last line) every
    gutter of the display is exactly that wide: all `|` separators are in one column.
  * `C16_layout` (= `C16_layout_statement`, proved in full): if every highlight
    carries exactly an end message (what `Highlight::new` builds) and fewer than
    256 are multi-line, the plain rendering of the display is, row for row,
    `Spec.displayRows` over the lines `SplitLines` yields — for highlights of
    EVERY shape: single-line; multi-line starting at column 0 or mid-line on any
    line, ending mid-line or at column 0; nested / overlapping; starting before,
    ending after, or lying wholly outside the displayed lines (and even with the
    end line above the start line).  The riser state machine of highlight.rs, as
    repaired for finding F10 (commit 1f5db4b), agrees with the index-based
    layout specification: its state is a function of the row sequence
    (`waiting` up to the start row, `started` from there to the highlight's own
    end mark row, `ended` after; the two normalisation steps handle start / end
    lines that are not displayed), `C16_riser_step`.  Before the repair the
    statement was false; `C16_former_F10_witness` shows that on the former
    counterexample the model now prints exactly the specified rows.
    `C16_layout_pieces` is the abstract form (any source, pieces with strictly
    increasing line numbers); `C16_layout_report` lifts the theorem to the whole
    plain report (`Spec.reportRows`), i.e. to exactly the comparison the
    differential driver makes.  `C16_layout_partial` (well-behaved highlights),
    `C16_layout_single_line` and `C16_layout_report_partial`, the formerly
    proved special cases, are kept as corollaries.
  * `C16_strip_partial`: removing `ESC [ … m` sequences from one painted string
    gives the string back, when the string itself contains no ESC.
  * `C16_plain_is_coloured_stripped`: THE PLAIN RENDERING EQUALS THE COLOURED
    RENDERING WITH ESCAPE CODES REMOVED, for a whole report.  For every source and
    every report (any number of displays, highlights — single- or multi-line, of
    any shape, well-behaved or not —, notes; any span, canonical or not): writing
    the report with colour on and the real painter (`ansi`, what `colored`
    emits), then deleting every escape sequence `ESC … m` (`stripAnsi`, the
    two-state automaton the differential driver applies, `C16_strip_is_driver_strip`)
    gives exactly the result of writing it with colour off — the same string, or a
    panic on both sides.  Hypotheses, each shown necessary by a concrete
    counterexample below:
      - `ApiBuilt cd`: no error code and no highlight with a start message (for
        these the two code paths of the Rust print different text: the plain path
        drops `[code]`, and omits the newline after a multi-line start message);
      - `SrcNoEsc src`, `CdNoEsc cd`: the source text, the message, display names,
        highlight messages and notes contain no ESC character themselves (user
        data containing ESC is swallowed by any escape stripper).
    `C16_display_plain_is_coloured_stripped` is the same for one span display;
    `C16_strip_append` is the compositional fact behind it (stripping distributes
    over `++` when the left piece ends outside an escape sequence, which holds
    for every piece the renderer emits).

  Lean: `TephraModel.Render` against `TephraModel.Spec.RenderSpec`; a span is
  `t = a ++ mid ++ z` as in C18.  Unbounded in the text, the number of lines and
  the number of highlights (< 256 multi-line ones, as in the Rust).
-/
import TephraProofs.RenderProof
import TephraProofs.RenderStrip
import TephraModel.Render
import TephraModel.Spec.RenderSpec

namespace Tephra.Props
open Tephra Tephra.Render Tephra.Spec Tephra.LinesPf Tephra.RenderPf

theorem C16_gutter_shape (v : String) (w : Nat) :
    writeGutter plainPaint false v w = padLeft w v ++ " | " := rfl

theorem C16_gutter_colour_path_agrees (v : String) (w : Nat) :
    writeGutter plainPaint true v w = writeGutter plainPaint false v w := by
  simp [writeGutter, plainPaint, String.append_assoc]

theorem C16_riser_colour_path_agrees (h : Highlight) (line : Nat) (st : Riser) (active : Bool) :
    writeRiser plainPaint true h line st active = writeRiser plainPaint false h line st active := by
  cases st <;> simp [writeRiser, plainPaint]

theorem C16_mark_row_colour_path_agrees (h : Highlight) (line : Nat) (sp : Bool) (hs : h.startMsg = none) :
    writeMessage plainPaint true h line sp = writeMessage plainPaint false h line sp := by
  simp [writeMessage, plainPaint, hs]

example : padLeft 3 "10" = " 10" := by decide

/-! ### 1. colour path -/

/-- The colour code path under the identity painter is the plain code path. -/
theorem C16_colour_path_agrees (src : Source) (cd : CodeDisplay)
    (hstart : ∀ sd ∈ cd.spans, ∀ h ∈ sd.highlights, h.startMsg = none) (hcode : cd.codeId = none) :
    writeCodeDisplay plainPaint src { cd with colorEnabled := true } =
      writeCodeDisplay plainPaint src { cd with colorEnabled := false } :=
  writeCodeDisplay_colour src cd hstart hcode

/-- The same for one span display. -/
theorem C16_colour_path_agrees_display (src : Source) (sd : SpanDisplay)
    (hstart : ∀ h ∈ sd.highlights, h.startMsg = none) :
    writeSpanDisplay plainPaint true src sd = writeSpanDisplay plainPaint false src sd :=
  writeSpanDisplay_colour src sd hstart

/-! ### 2. no panic -/

/-- `SpanDisplay::new` on a canonical span succeeds, and writing the display with any
highlights (never two messages on one highlight, fewer than 256 multi-line ones) does not
panic — any painter, colour on or off. -/
theorem C16_render_total (paint : Style → String → String) (color : Bool)
    (m : Metrics) (_htab : 1 ≤ m.tab) (a mid z : Text) (hwf : Text.WF (a ++ mid ++ z))
    (ha1 : aligned m a (mid ++ z) = true) (ha2 : aligned m (a ++ mid) z = true)
    (name : Option String) (hls : List Highlight)
    (hmsg : ∀ h ∈ hls, h.startMsg = none ∨ h.endMsg = none)
    (hmulti : (hls.filter (·.isMultiline)).length < 256) :
    let src : Source := ⟨a ++ mid ++ z, m, Pos.zero⟩
    ∃ sd, SpanDisplay.new src name ⟨canon m a, canon m (a ++ mid)⟩ = .ok sd ∧
      writeSpanDisplay paint color src { sd with highlights := hls } ≠ .panic := by
  refine ⟨_, spanDisplay_new_ok m a mid z hwf ha1 ha2 name, ?_⟩
  obtain ⟨s, hs⟩ := writeSpanDisplay_ok paint color m a mid z hwf
    { name := name, span := widenSpec m a mid z, highlights := hls, notes := [],
      gutter := gutterWidth (canon m (a ++ mid)).line } rfl hmsg hmulti
  rw [hs]; simp

/-- a span display of the text `t` that `SpanDisplay::new` built from a canonical span, with
highlights and notes added afterwards -/
def CanonDisplay (m : Metrics) (t : Text) (sd : SpanDisplay) : Prop :=
  ∃ (a mid z : Text) (name : Option String) (sd0 : SpanDisplay),
    t = a ++ mid ++ z ∧ aligned m a (mid ++ z) = true ∧ aligned m (a ++ mid) z = true ∧
    SpanDisplay.new ⟨t, m, Pos.zero⟩ name ⟨canon m a, canon m (a ++ mid)⟩ = .ok sd0 ∧
    sd = { sd0 with highlights := sd.highlights, notes := sd.notes } ∧
    (∀ h ∈ sd.highlights, h.startMsg = none ∨ h.endMsg = none) ∧
    (sd.highlights.filter (·.isMultiline)).length < 256

/-- Writing a whole report whose displays are all of that kind does not panic. -/
theorem C16_render_total_report (paint : Style → String → String)
    (m : Metrics) (_htab : 1 ≤ m.tab) (t : Text) (hwf : Text.WF t) (cd : CodeDisplay)
    (hall : ∀ sd ∈ cd.spans, CanonDisplay m t sd) :
    writeCodeDisplay paint ⟨t, m, Pos.zero⟩ cd ≠ .panic := by
  obtain ⟨s, hs⟩ := writeCodeDisplay_ok paint ⟨t, m, Pos.zero⟩ cd (by
    intro sd hsd
    obtain ⟨a, mid, z, name, sd0, rfl, ha1, ha2, hnew, hsd0, hmsg, hmulti⟩ := hall sd hsd
    rw [spanDisplay_new_ok m a mid z hwf ha1 ha2 name] at hnew
    injection hnew with hnew
    exact writeSpanDisplay_ok paint cd.colorEnabled m a mid z hwf sd
      (by rw [hsd0, ← hnew]) hmsg hmulti)
  rw [hs]; simp

/-! ### 3. every line once, in order -/

/-- The body of a plain display: one block per line of the text `mid'` under the widened span
(`t = a0 ++ mid' ++ rem`, both cuts aligned), in order; block `i` is the source row of line `i`
(number `first + i`, text verbatim) followed by that line's mark rows. -/
theorem C16_lines_once_in_order (m : Metrics) (_htab : 1 ≤ m.tab) (a mid z : Text)
    (hwf : Text.WF (a ++ mid ++ z)) (sd : SpanDisplay) (hspan : sd.span = widenSpec m a mid z)
    (out : String)
    (h : writeSpanDisplay plainPaint false ⟨a ++ mid ++ z, m, Pos.zero⟩ sd = .ok out) :
    ∃ a0 mid' rem rows, a ++ mid ++ z = a0 ++ mid' ++ rem ∧
      sd.span = ⟨canon m a0, canon m (a0 ++ mid')⟩ ∧
      aligned m a0 (mid' ++ rem) = true ∧ aligned m (a0 ++ mid') rem = true ∧
      sd.span.e.line = sd.span.s.line + ((linesOf m mid').length - 1) ∧
      out = rep " " sd.gutter ++ "-->" ++ " " ++ (match sd.name with | some n => n ++ ":" | none => "")
              ++ "(" ++ showSpan sd.span ++ ")\n" ++ (padLeft sd.gutter "" ++ " | ") ++ "\n" ++
            String.join rows ++
            String.join (sd.notes.map fun n =>
              rep " " sd.gutter ++ " = " ++ writeNote plainPaint false n ++ "\n") ∧
      rows.length = (linesOf m mid').length ∧
      ∀ i l, (linesOf m mid')[i]? = some l → ∃ ris msgs,
        rows[i]? = some (padLeft sd.gutter (toString (sd.span.s.line + i)) ++ " | " ++ ris ++
          (if sd.highlights.any (·.isMultiline) then " " else "") ++ textString l ++ "\n" ++ msgs) ∧
        MsgRows sd.gutter sd.highlights (sd.span.s.line + i) msgs :=
  writeSpanDisplay_shape m a mid z hwf sd hspan out h

/-- The structured form: the loop over the pieces emits, for pieces that clip to the lines `L`
numbered from `n`, exactly one block per piece, in order. -/
theorem C16_lines_once_in_order_rows (src : Source) (w : Nat) (hls : List Highlight)
    (n : Nat) (L : List Text) (pieces : List Span) (sts : List Riser) (s : String)
    (hp : PiecesOK src n L pieces) (h : lineRows plainPaint false src w hls pieces sts = .ok s) :
    ∃ rows : List String, s = String.join rows ∧ rows.length = L.length ∧
      ∀ i l, L[i]? = some l → ∃ ris msgs,
        rows[i]? = some (padLeft w (toString (n + i)) ++ " | " ++ ris ++
          (if hls.any (·.isMultiline) then " " else "") ++ textString l ++ "\n" ++ msgs) ∧
        MsgRows w hls (n + i) msgs :=
  lineRows_shape src w hls n L pieces sts s hp h

/-- The pieces `SplitLines` yields on a canonical span are such pieces: piece `i` clips to
line `i` of the text under the span and carries line number `first + i`. -/
theorem C16_pieces_are_lines (m : Metrics) (_htab : 1 ≤ m.tab) (a mid z : Text)
    (hwf : Text.WF (a ++ mid ++ z))
    (ha1 : aligned m a (mid ++ z) = true) (ha2 : aligned m (a ++ mid) z = true) :
    let src : Source := ⟨a ++ mid ++ z, m, Pos.zero⟩
    (SplitLines.ofSpan ⟨canon m a, canon m (a ++ mid)⟩ src).collect
        ((canon m (a ++ mid)).line - (canon m a).line + 2) = .ok (splitSpec m a mid z, 0) ∧
      PiecesOK src (canon m a).line (linesOf m mid) ((splitSpec m a mid z).map (·.2)) :=
  ⟨collect_wide m a mid z hwf ha1 ha2, pieces_ok m z (linesOf m mid) a mid rfl hwf ha1 ha2⟩

/-! ### 4. gutters -/

/-- `{:>w$}` pads to `max w len`; digit counts are monotone; hence with the width chosen by
`SpanDisplay::new` (digits of the last line of the span; widening keeps that line) the gutter of
every line up to the last, and the blank gutter, are exactly that wide. -/
theorem C16_gutter_aligned :
    (∀ (w : Nat) (s : String), (padLeft w s).length = max w s.length) ∧
    (∀ line last : Nat, line ≤ last → (toString line).length ≤ gutterWidth last) ∧
    (∀ line last : Nat, line ≤ last →
      (padLeft (gutterWidth last) (toString line)).length = gutterWidth last) ∧
    (∀ w : Nat, (padLeft w "").length = w) ∧
    (∀ (m : Metrics) (a mid z : Text), aligned m (a ++ mid) z = true →
      (widenSpec m a mid z).e.line = (canon m (a ++ mid)).line) :=
  ⟨padLeft_length, fun _ _ h => gutterWidth_mono h, fun _ _ h => padLeft_gutter_length h,
    padLeft_empty_length, widen_e_line⟩

/-- In a display built by `SpanDisplay::new` from a canonical span, every source row's gutter
(lines `first … last` of the widened span) is exactly `sd.gutter` characters wide. -/
theorem C16_gutter_aligned_display (m : Metrics) (_htab : 1 ≤ m.tab) (a mid z : Text)
    (hwf : Text.WF (a ++ mid ++ z))
    (ha1 : aligned m a (mid ++ z) = true) (ha2 : aligned m (a ++ mid) z = true)
    (name : Option String) (sd : SpanDisplay)
    (hnew : SpanDisplay.new ⟨a ++ mid ++ z, m, Pos.zero⟩ name ⟨canon m a, canon m (a ++ mid)⟩ = .ok sd)
    (line : Nat) (hline : line ≤ sd.span.e.line) :
    (padLeft sd.gutter (toString line)).length = sd.gutter ∧ (padLeft sd.gutter "").length = sd.gutter := by
  rw [spanDisplay_new_ok m a mid z hwf ha1 ha2 name] at hnew
  injection hnew with hnew
  subst hnew
  simp only at hline ⊢
  rw [widen_e_line m a mid z ha2] at hline
  exact ⟨padLeft_gutter_length hline, padLeft_empty_length _⟩

/-! ### 5. layout -/

/-- The layout statement, for highlights of every shape (each with exactly an end message, what
`Highlight::new` builds): the plain rendering of a display built by `SpanDisplay::new` from a
canonical span is the specification's rows over the lines `SplitLines` yields, each followed by
a newline.  It did not hold before the riser repair of finding F10 (commit 1f5db4b); it is now
proved in full: `C16_layout`. -/
def C16_layout_statement : Prop :=
  ∀ (m : Metrics), 1 ≤ m.tab → ∀ (a mid z : Text), Text.WF (a ++ mid ++ z) →
    aligned m a (mid ++ z) = true → aligned m (a ++ mid) z = true →
    ∀ (name : Option String) (sd : SpanDisplay) (hls : List Highlight),
    SpanDisplay.new ⟨a ++ mid ++ z, m, Pos.zero⟩ name ⟨canon m a, canon m (a ++ mid)⟩ = .ok sd →
    (∀ h ∈ hls, h.startMsg = none ∧ ∃ msg, h.endMsg = some msg) →
    (hls.filter (·.isMultiline)).length < 256 →
    ∃ pieces n,
      (SplitLines.ofSpan sd.span ⟨a ++ mid ++ z, m, Pos.zero⟩).collect
        (sd.span.e.line - sd.span.s.line + 2) = .ok (pieces, n) ∧
      writeSpanDisplay plainPaint false ⟨a ++ mid ++ z, m, Pos.zero⟩ { sd with highlights := hls } =
        .ok ("\n".intercalate (displayRows name sd.span sd.gutter
              (pieceLines (a ++ mid ++ z) (pieces.map (·.2))) hls) ++ "\n")

/-- LAYOUT, UNRESTRICTED.  For every list of highlights — single-line; multi-line starting at
column 0 or mid-line, on any line; ending mid-line or at column 0; nested or overlapping;
starting before, ending after or lying wholly outside the displayed lines; even with the end
line above the start line — the plain rendering is, row for row, `Spec.displayRows`: the
(repaired) riser state machine of highlight.rs agrees with the index-based layout
specification. -/
theorem C16_layout : C16_layout_statement := by
  intro m _htab a mid z hwf ha1 ha2 name sd hls hnew hmsg hmulti
  rw [spanDisplay_new_ok m a mid z hwf ha1 ha2 name] at hnew
  injection hnew with hnew
  subst hnew
  exact writeSpanDisplay_layout_canon m a mid z hwf
    { name := name, span := widenSpec m a mid z, highlights := hls, notes := [],
      gutter := gutterWidth (canon m (a ++ mid)).line } rfl rfl hmulti
    (fun h hh => hmsg h hh)

/-- The former F10 witness: the LF text `ab⏎cd⏎ef`, displayed whole, with one multi-line
highlight that starts in the middle of line 0 (column 1) and ends in the middle of line 1. -/
def f10Metrics : Metrics := ⟨.lf, 4⟩
def f10Text : Text := [⟨97, 1, 1⟩, ⟨98, 1, 1⟩, ⟨10, 1, 0⟩, ⟨99, 1, 1⟩, ⟨100, 1, 1⟩, ⟨10, 1, 0⟩,
  ⟨101, 1, 1⟩, ⟨102, 1, 1⟩]
def f10Highlights : List Highlight := [⟨⟨⟨1, 0, 1⟩, ⟨4, 1, 1⟩⟩, none, some "m", .error⟩]

/-- On the display that used to refute the layout statement (the pinned code printed
`0 |   ab / | |_^ / 1 |   cd / |  _^ m`) the model of the repaired code prints exactly the
specified rows `0 |   ab / |  _^ / 1 | | cd / | |_^ m / 2 |   ef`. -/
theorem C16_former_F10_witness :
    ∃ sd, SpanDisplay.new ⟨[] ++ f10Text ++ [], f10Metrics, Pos.zero⟩ none
        ⟨canon f10Metrics [], canon f10Metrics ([] ++ f10Text)⟩ = .ok sd ∧
      writeSpanDisplay plainPaint false ⟨[] ++ f10Text ++ [], f10Metrics, Pos.zero⟩
          { sd with highlights := f10Highlights } =
        .ok (" --> (0:0-2:2, bytes 0-8)\n  | \n0 |   ab\n  |  _^\n1 | | cd\n  | |_^ m\n2 |   ef\n") ∧
      displayRows none sd.span sd.gutter [(0, "ab"), (1, "cd"), (2, "ef")] f10Highlights =
        [" --> (0:0-2:2, bytes 0-8)", "  | ", "0 |   ab", "  |  _^", "1 | | cd", "  | |_^ m",
         "2 |   ef"] := by
  have hwf : Text.WF ([] ++ f10Text ++ []) := by
    intro c hc
    simp [f10Text] at hc
    rcases hc with rfl | rfl | rfl | rfl | rfl | rfl | rfl | rfl <;> decide
  refine ⟨_, spanDisplay_new_ok f10Metrics [] f10Text [] hwf (by decide) (by decide) none, ?_, ?_⟩
  · decide +kernel
  · decide +kernel

/-- Non-vacuity of `C16_layout`: the LF text `ab⏎cd⏎ef`, the span over all of it, with a
multi-line highlight starting mid-line (0:1–1:1), a multi-line highlight from column 0 of line 0
ending at column 0 of line 2, a multi-line highlight from the start of line 0 to the middle of
line 1, and a single-line highlight on line 2, satisfy every hypothesis. -/
example :
    let m : Metrics := ⟨.lf, 4⟩
    let a : Text := []
    let mid : Text := [⟨97, 1, 1⟩, ⟨98, 1, 1⟩, ⟨10, 1, 0⟩, ⟨99, 1, 1⟩, ⟨100, 1, 1⟩, ⟨10, 1, 0⟩,
      ⟨101, 1, 1⟩, ⟨102, 1, 1⟩]
    let z : Text := []
    let hls : List Highlight := [⟨⟨⟨1, 0, 1⟩, ⟨4, 1, 1⟩⟩, none, some "midline", .error⟩,
      ⟨⟨⟨0, 0, 0⟩, ⟨6, 2, 0⟩⟩, none, some "col0", .warning⟩,
      ⟨⟨⟨0, 0, 0⟩, ⟨4, 1, 1⟩⟩, none, some "multi", .error⟩,
      ⟨⟨⟨6, 2, 0⟩, ⟨8, 2, 2⟩⟩, none, some "single", .note⟩]
    1 ≤ m.tab ∧ Text.WF (a ++ mid ++ z) ∧ aligned m a (mid ++ z) = true ∧
      aligned m (a ++ mid) z = true ∧
      ∃ sd, SpanDisplay.new ⟨a ++ mid ++ z, m, Pos.zero⟩ (some "src")
          ⟨canon m a, canon m (a ++ mid)⟩ = .ok sd ∧
        (∀ h ∈ hls, h.startMsg = none ∧ ∃ msg, h.endMsg = some msg) ∧
        (hls.filter (·.isMultiline)).length < 256 ∧
        (∃ h ∈ hls, h.isMultiline = true ∧ h.span.s.col ≠ 0) ∧
        (∃ h ∈ hls, h.isMultiline = true ∧ h.span.e.col = 0) := by
  intro m a mid z hls
  have hwf : Text.WF (a ++ mid ++ z) := by
    intro c hc
    simp [a, mid, z] at hc
    rcases hc with rfl | rfl | rfl | rfl | rfl | rfl | rfl | rfl <;> decide
  refine ⟨by decide, hwf, by decide, by decide, _,
    spanDisplay_new_ok m a mid z hwf (by decide) (by decide) (some "src"), ?_, by decide, ?_, ?_⟩
  · intro h hh
    simp [hls] at hh
    rcases hh with rfl | rfl | rfl | rfl <;> simp
  · exact ⟨_, List.mem_cons_self, by decide⟩
  · exact ⟨_, List.mem_cons_of_mem _ List.mem_cons_self, by decide⟩

/-- The same display as the former F10 witness, but with a highlight that starts mid-line and
one that ends at column 0 together: what the model prints, rows as specified. -/
example :
    writeSpanDisplay plainPaint false ⟨f10Text, f10Metrics, Pos.zero⟩
        { name := none, span := ⟨⟨0, 0, 0⟩, ⟨8, 2, 2⟩⟩, notes := [], gutter := 1,
          highlights := [⟨⟨⟨1, 0, 1⟩, ⟨4, 1, 1⟩⟩, none, some "a", .error⟩,
                         ⟨⟨⟨3, 1, 0⟩, ⟨6, 2, 0⟩⟩, none, some "b", .note⟩] } =
      .ok (" --> (0:0-2:2, bytes 0-8)\n  | \n0 |    ab\n  |   _^\n1 | |/ cd\n  | ||_^ a\n2 |  | ef\n  |  |_^ b\n") := by
  decide +kernel

/-- The formerly proved part, now a special case of `C16_layout`: well-behaved highlights
(`Spec.wellBehaved`; the hypothesis `hwell` is no longer needed). -/
theorem C16_layout_partial (m : Metrics) (_htab : 1 ≤ m.tab) (a mid z : Text)
    (hwf : Text.WF (a ++ mid ++ z))
    (ha1 : aligned m a (mid ++ z) = true) (ha2 : aligned m (a ++ mid) z = true)
    (name : Option String) (sd : SpanDisplay) (hls : List Highlight)
    (hnew : SpanDisplay.new ⟨a ++ mid ++ z, m, Pos.zero⟩ name ⟨canon m a, canon m (a ++ mid)⟩ = .ok sd)
    (hmsg : ∀ h ∈ hls, h.startMsg = none ∧ ∃ msg, h.endMsg = some msg)
    (hmulti : (hls.filter (·.isMultiline)).length < 256)
    (_hwell : ∀ h ∈ hls, wellBehaved sd.span.s.line sd.span.e.line h = true) :
    ∃ pieces n,
      (SplitLines.ofSpan sd.span ⟨a ++ mid ++ z, m, Pos.zero⟩).collect
        (sd.span.e.line - sd.span.s.line + 2) = .ok (pieces, n) ∧
      writeSpanDisplay plainPaint false ⟨a ++ mid ++ z, m, Pos.zero⟩ { sd with highlights := hls } =
        .ok ("\n".intercalate (displayRows name sd.span sd.gutter
              (pieceLines (a ++ mid ++ z) (pieces.map (·.2))) hls) ++ "\n") :=
  C16_layout m _htab a mid z hwf ha1 ha2 name sd hls hnew hmsg hmulti

/-- The special case of single-line highlights only. -/
theorem C16_layout_single_line (m : Metrics) (_htab : 1 ≤ m.tab) (a mid z : Text)
    (hwf : Text.WF (a ++ mid ++ z))
    (ha1 : aligned m a (mid ++ z) = true) (ha2 : aligned m (a ++ mid) z = true)
    (name : Option String) (sd : SpanDisplay) (hls : List Highlight)
    (hnew : SpanDisplay.new ⟨a ++ mid ++ z, m, Pos.zero⟩ name ⟨canon m a, canon m (a ++ mid)⟩ = .ok sd)
    (hmsg : ∀ h ∈ hls, h.startMsg = none ∧ ∃ msg, h.endMsg = some msg)
    (hsingle : ∀ h ∈ hls, h.isMultiline = false) :
    ∃ pieces n,
      (SplitLines.ofSpan sd.span ⟨a ++ mid ++ z, m, Pos.zero⟩).collect
        (sd.span.e.line - sd.span.s.line + 2) = .ok (pieces, n) ∧
      writeSpanDisplay plainPaint false ⟨a ++ mid ++ z, m, Pos.zero⟩ { sd with highlights := hls } =
        .ok ("\n".intercalate (displayRows name sd.span sd.gutter
              (pieceLines (a ++ mid ++ z) (pieces.map (·.2))) hls) ++ "\n") := by
  refine C16_layout m _htab a mid z hwf ha1 ha2 name sd hls hnew hmsg ?_
  have : hls.filter (·.isMultiline) = [] := by
    rw [List.filter_eq_nil_iff]; intro h hh; simp [hsingle h hh]
  rw [this]; simp

/-- The abstract form of the layout theorem (any source; hypotheses on the pieces: strictly
increasing line numbers, each piece clips to the text recorded for its line). -/
theorem C16_layout_pieces (src : Source) (sd : SpanDisplay) (pieces : List (Nat × Span))
    (n : Nat)
    (hcollect : (SplitLines.ofSpan sd.span src).collect (sd.span.e.line - sd.span.s.line + 2) =
      .ok (pieces, n))
    (hnotes : sd.notes = [])
    (hlen : (sd.highlights.filter (·.isMultiline)).length < 256)
    (hok : ∀ h ∈ sd.highlights, h.startMsg = none ∧ ∃ msg, h.endMsg = some msg)
    (lines : List (Nat × String))
    (hlines : lines.map (·.1) = pieces.map (·.2.s.line))
    (hsorted : (pieces.map (·.2.s.line)).Pairwise (· < ·))
    (hclip : ∀ p ∈ pieces, ∃ piece, src.clipped p.2 = .ok piece ∧
      textString piece.text = ((lines.find? (·.1 == p.2.s.line)).map (·.2)).getD "") :
    writeSpanDisplay plainPaint false src sd =
      .ok ("\n".intercalate (displayRows sd.name sd.span sd.gutter lines sd.highlights) ++ "\n") :=
  writeSpanDisplay_layout src sd pieces n hcollect hnotes hlen hok lines hlines hsorted hclip

/-- One step of the riser state machine against the specification, the core of `C16_layout`:
on row `i` of a list of row ids `ids` printed in order (`IdsOK`: sorted by line, source row
before mark rows, mark rows in highlight order; the start and end rows of highlight `k` occur if
their lines do), the model's `writeRiser`, started in the state reached after the rows before
`i`, emits `Spec.riserChar ids h k i` (nothing for a single-line highlight) and moves to the
state reached after row `i`; `active` is true exactly on the mark rows of highlight `k`. -/
theorem C16_riser_step {ids : List RowId} {h : Highlight} {k : Nat}
    (hmsg : h.startMsg = none ∧ ∃ msg, h.endMsg = some msg)
    (hids : h.isMultiline = true → IdsOK ids h k) {i : Nat} {r : RowId} (hr : ids[i]? = some r) :
    writeRiser plainPaint false h r.line (stateAt ids h k i) (rowAct r == some k) =
      (if h.isMultiline then riserChar ids h k i else "", stateAt ids h k (i + 1)) :=
  riser_step hmsg hids hr

/-- the lines the layout oracle takes from `SplitLines` for a display (as `specRender` does) -/
def displayLines (src : Source) (sd : SpanDisplay) : List (Nat × String) :=
  match (SplitLines.ofSpan sd.span src).collect (sd.span.e.line - sd.span.s.line + 2) with
  | .ok (pieces, _) => pieceLines src.text (pieces.map (·.2))
  | .panic => []

/-- a display of the text `t` built by `SpanDisplay::new` from a canonical span, with highlights
(of any shape, each with exactly an end message, fewer than 256 multi-line ones) added
afterwards -/
def LayoutDisplay (m : Metrics) (t : Text) (sd : SpanDisplay) : Prop :=
  ∃ (a mid z : Text) (name : Option String) (sd0 : SpanDisplay),
    t = a ++ mid ++ z ∧ aligned m a (mid ++ z) = true ∧ aligned m (a ++ mid) z = true ∧
    SpanDisplay.new ⟨t, m, Pos.zero⟩ name ⟨canon m a, canon m (a ++ mid)⟩ = .ok sd0 ∧
    sd = { sd0 with highlights := sd.highlights } ∧
    (∀ h ∈ sd.highlights, h.startMsg = none ∧ ∃ msg, h.endMsg = some msg) ∧
    (sd.highlights.filter (·.isMultiline)).length < 256

/-- Layout of the whole plain report (every display a `LayoutDisplay`, no report-level notes):
the output is `Spec.reportRows`, each row followed by a newline — the comparison the
differential driver makes (`specRender`), proved for all inputs and all highlight shapes. -/
theorem C16_layout_report (m : Metrics) (_htab : 1 ≤ m.tab) (t : Text) (hwf : Text.WF t)
    (cd : CodeDisplay) (hcolor : cd.colorEnabled = false) (hnotes : cd.notes = [])
    (hall : ∀ sd ∈ cd.spans, LayoutDisplay m t sd) :
    writeCodeDisplay plainPaint ⟨t, m, Pos.zero⟩ cd =
      .ok ("\n".intercalate (reportRows cd.mtype cd.message
        (cd.spans.map fun sd =>
          (sd.name, sd.span, sd.gutter, displayLines ⟨t, m, Pos.zero⟩ sd, sd.highlights))) ++ "\n") := by
  apply writeCodeDisplay_layout _ cd hcolor hnotes
  intro sd hsd
  obtain ⟨a, mid, z, name, sd0, rfl, ha1, ha2, hnew, hsd0, hmsg, hmulti⟩ := hall sd hsd
  rw [spanDisplay_new_ok m a mid z hwf ha1 ha2 name] at hnew
  injection hnew with hnew
  have hspan : sd.span = widenSpec m a mid z := by rw [hsd0, ← hnew]
  have hno : sd.notes = [] := by rw [hsd0, ← hnew]
  obtain ⟨pieces, n, hc, hw⟩ := writeSpanDisplay_layout_canon m a mid z hwf sd hspan hno hmulti
    (fun h hh => hmsg h hh)
  rw [hw]
  simp only [displayLines, hc]

/-- a `LayoutDisplay` whose highlights are moreover well-behaved (the class of the former
partial theorem) -/
def WellDisplay (m : Metrics) (t : Text) (sd : SpanDisplay) : Prop :=
  LayoutDisplay m t sd ∧
    (∀ h ∈ sd.highlights, wellBehaved sd.span.s.line sd.span.e.line h = true)

/-- The formerly proved part of the report-level layout, now a special case of
`C16_layout_report`. -/
theorem C16_layout_report_partial (m : Metrics) (_htab : 1 ≤ m.tab) (t : Text) (hwf : Text.WF t)
    (cd : CodeDisplay) (hcolor : cd.colorEnabled = false) (hnotes : cd.notes = [])
    (hall : ∀ sd ∈ cd.spans, WellDisplay m t sd) :
    writeCodeDisplay plainPaint ⟨t, m, Pos.zero⟩ cd =
      .ok ("\n".intercalate (reportRows cd.mtype cd.message
        (cd.spans.map fun sd =>
          (sd.name, sd.span, sd.gutter, displayLines ⟨t, m, Pos.zero⟩ sd, sd.highlights))) ++ "\n") :=
  C16_layout_report m _htab t hwf cd hcolor hnotes (fun sd hsd => (hall sd hsd).1)

/-! ### 6. escape codes -/

/-- Removing `ESC [ … m` sequences from one painted string gives the string back (extra
hypothesis: the string itself contains no ESC). -/
theorem C16_strip_partial (st : Style) (s : String) (h : ∀ c ∈ s.toList, c.toNat ≠ 27) :
    Fam.RenderF.stripAnsi ((ansi st s).toList.map (·.toNat)) = s.toList.map (·.toNat) :=
  stripAnsi_ansi st s h

/-- `stripAnsi` (on strings) is the function the differential driver applies to the coloured
output (on code points). -/
theorem C16_strip_is_driver_strip (s : String) :
    Fam.RenderF.stripAnsi (s.toList.map (·.toNat)) = (stripAnsi s).toList.map (·.toNat) :=
  stripAnsi_bridge s

/-- Stripping distributes over `++` when the left piece, read from outside an escape sequence,
ends outside one (`Strips a a'`: it then emits `a'`). -/
theorem C16_strip_append {a a' : String} (h : Strips a a') (b : String) :
    stripAnsi (a ++ b) = stripAnsi a ++ stripAnsi b :=
  stripAnsi_append h b

/-- The plain rendering equals the coloured rendering with escape codes removed: a whole
report, any source.  `ApiBuilt cd`: `cd.codeId = none` and no highlight has a start message;
`SrcNoEsc src`: no character of the source text is ESC; `CdNoEsc cd`: the message, error code,
display names, highlight messages and note texts contain no ESC. -/
theorem C16_plain_is_coloured_stripped (src : Source) (cd : CodeDisplay)
    (hapi : ApiBuilt cd) (hsrc : SrcNoEsc src) (hcd : CdNoEsc cd) :
    (writeCodeDisplay ansi src { cd with colorEnabled := true }).map stripAnsi =
      writeCodeDisplay plainPaint src { cd with colorEnabled := false } :=
  plain_is_coloured_stripped src cd hapi hsrc hcd

/-- The same for one span display. -/
theorem C16_display_plain_is_coloured_stripped (src : Source) (sd : SpanDisplay)
    (hstart : ∀ h ∈ sd.highlights, h.startMsg = none) (hsrc : SrcNoEsc src) (hsd : SdNoEsc sd) :
    (writeSpanDisplay ansi true src sd).map stripAnsi = writeSpanDisplay plainPaint false src sd :=
  display_plain_is_coloured_stripped src sd hstart hsrc hsd

/-- the LF text `ab⏎cd` -/
def stripSrc : Source :=
  ⟨[⟨97, 1, 1⟩, ⟨98, 1, 1⟩, ⟨10, 1, 0⟩, ⟨99, 1, 1⟩, ⟨100, 1, 1⟩], ⟨.lf, 4⟩, Pos.zero⟩

/-- a report on it: one display of both lines with a multi-line highlight (line 0 column 0 to
line 1 column 1), a single-line highlight (line 1), a display note and a report note -/
def stripCd : CodeDisplay :=
  { message := "bad", mtype := .error, codeId := none,
    spans := [{ name := some "src", span := ⟨⟨0, 0, 0⟩, ⟨5, 1, 2⟩⟩,
                highlights := [⟨⟨⟨0, 0, 0⟩, ⟨4, 1, 1⟩⟩, none, some "multi", .error⟩,
                               ⟨⟨⟨3, 1, 0⟩, ⟨5, 1, 2⟩⟩, none, some "single", .note⟩],
                notes := [⟨.help, "try"⟩], gutter := 1 }],
    notes := [⟨.note, "see"⟩], colorEnabled := false }

/-- Non-vacuity: the report above satisfies the three hypotheses, renders (plain) to the eight
rows shown, and hence so does its coloured rendering once stripped. -/
example :
    ApiBuilt stripCd ∧ SrcNoEsc stripSrc ∧ CdNoEsc stripCd ∧
    writeCodeDisplay plainPaint stripSrc { stripCd with colorEnabled := false } =
      .ok ("error: bad\n --> src:(0:0-1:2, bytes 0-5)\n  | \n0 | / ab\n1 | | cd\n" ++
           "  | |_^ multi\n  |   -- single\n  = help: try\nnote: see") ∧
    (writeCodeDisplay ansi stripSrc { stripCd with colorEnabled := true }).map stripAnsi =
      .ok ("error: bad\n --> src:(0:0-1:2, bytes 0-5)\n  | \n0 | / ab\n1 | | cd\n" ++
           "  | |_^ multi\n  |   -- single\n  = help: try\nnote: see") := by
  have h1 : ApiBuilt stripCd := by decide
  have h2 : SrcNoEsc stripSrc := by decide
  have h3 : CdNoEsc stripCd := by decide
  have h4 : writeCodeDisplay plainPaint stripSrc { stripCd with colorEnabled := false } =
      .ok ("error: bad\n --> src:(0:0-1:2, bytes 0-5)\n  | \n0 | / ab\n1 | | cd\n" ++
           "  | |_^ multi\n  |   -- single\n  = help: try\nnote: see") := by decide +kernel
  exact ⟨h1, h2, h3, h4, (C16_plain_is_coloured_stripped stripSrc stripCd h1 h2 h3).trans h4⟩

/-- Necessity of `CdNoEsc`: a report whose message is `ESC m` (nothing else) — the stripper
swallows the message. -/
def escMsgCd : CodeDisplay :=
  { message := "\x1bm", mtype := .info, codeId := none, spans := [], notes := [], colorEnabled := false }

example :
    ApiBuilt escMsgCd ∧ SrcNoEsc stripSrc ∧
    (writeCodeDisplay ansi stripSrc { escMsgCd with colorEnabled := true }).map stripAnsi ≠
      writeCodeDisplay plainPaint stripSrc { escMsgCd with colorEnabled := false } := by
  decide +kernel

/-- Necessity of `SrcNoEsc`: the source text `ESC m`, displayed whole. -/
def escSrc : Source := ⟨[⟨27, 1, 0⟩, ⟨109, 1, 1⟩], ⟨.lf, 4⟩, Pos.zero⟩
def escSrcCd : CodeDisplay :=
  { message := "m", mtype := .info, codeId := none,
    spans := [{ name := none, span := ⟨⟨0, 0, 0⟩, ⟨2, 0, 1⟩⟩, highlights := [], notes := [], gutter := 1 }],
    notes := [], colorEnabled := false }

example :
    ApiBuilt escSrcCd ∧ CdNoEsc escSrcCd ∧
    (writeCodeDisplay ansi escSrc { escSrcCd with colorEnabled := true }).map stripAnsi ≠
      writeCodeDisplay plainPaint escSrc { escSrcCd with colorEnabled := false } := by
  decide +kernel

/-- Necessity of "no error code" in `ApiBuilt`: the colour path prints `info[E1]: m`, the plain
path `info: m`. -/
def codeCd : CodeDisplay :=
  { message := "m", mtype := .info, codeId := some "E1", spans := [], notes := [], colorEnabled := false }

example :
    SrcNoEsc stripSrc ∧ CdNoEsc codeCd ∧
    (writeCodeDisplay ansi stripSrc { codeCd with colorEnabled := true }).map stripAnsi ≠
      writeCodeDisplay plainPaint stripSrc { codeCd with colorEnabled := false } := by
  decide +kernel

/-- Necessity of "no start message" in `ApiBuilt`: a multi-line highlight with a start message —
the plain path omits the newline after it (`  | |_^ s1 |   cd`). -/
def startMsgCd : CodeDisplay :=
  { message := "m", mtype := .info, codeId := none,
    spans := [{ name := none, span := ⟨⟨0, 0, 0⟩, ⟨5, 1, 2⟩⟩,
                highlights := [⟨⟨⟨1, 0, 1⟩, ⟨4, 1, 1⟩⟩, some "s", none, .error⟩], notes := [], gutter := 1 }],
    notes := [], colorEnabled := false }

example :
    SrcNoEsc stripSrc ∧ CdNoEsc startMsgCd ∧
    (writeCodeDisplay ansi stripSrc { startMsgCd with colorEnabled := true }).map stripAnsi ≠
      writeCodeDisplay plainPaint stripSrc { startMsgCd with colorEnabled := false } := by
  decide +kernel

end Tephra.Props
