/-
  C16 — rendered reports show the right lines with aligned, correctly placed marks.

  English.  Take any text, line-ending style, tab width ≥ 1 and character widths,
  and a report whose span displays are built by `SpanDisplay::new` from spans whose
  two ends are aligned character boundaries carrying their canonical positions
  (as in C18).  Then, for the model of display.rs / highlight.rs / message.rs /
  note.rs (which reproduces the real output byte for byte on the `render` /
  `rendercolor` families):

  * `C16_colour_path_agrees`: when no highlight has a start message (what
    `Highlight::new` builds) and there is no error code, the colour code path
    with the identity painter produces exactly the text of the plain code path —
    colour is the plain rendering up to painting.  (Piecewise forms:
    `C16_gutter_colour_path_agrees`, `C16_riser_colour_path_agrees`,
    `C16_mark_row_colour_path_agrees`.)
  * `C16_render_total`, `C16_render_total_report` (the renderer half of C01):
    `SpanDisplay::new` succeeds and writing the display / the whole report never
    panics, for any painter and either colour setting, provided no highlight
    carries two messages (the `todo!()`), and fewer than 256 highlights are
    multi-line (the riser-width conversion).  The other panic sites
    (`widen_to_line`, `split_lines`' `expect`, `clipped` of every line piece)
    are proved unreachable.
  * `C16_lines_once_in_order`: the body of a plain display is, after the header
    row and the blank gutter row, exactly one block per line of the text under
    the widened span, in order; block `i` starts with the source row
    `<line number first+i right-aligned> | <risers>[ ]<text of line i verbatim>⏎`
    and continues with that line's mark rows only (each the blank gutter, riser
    columns and the mark text of a highlight that has a mark on that line).
  * `C16_gutter_aligned`: `{:>w$}` yields `max w len` characters; the number of
    decimal digits is monotone, so with the gutter width `SpanDisplay::new`
    chooses (digits of the span's last line; widening keeps the last line) every
    gutter of the display is exactly that wide: all `|` separators are in one column.
  * `C16_layout_partial`: if every highlight is well-behaved (`Spec.wellBehaved`:
    single-line, or multi-line from column 0 of the first displayed line to the
    middle of a displayed line) and carries exactly an end message, the plain
    rendering of the display is, row for row, `Spec.displayRows` over the lines
    `SplitLines` yields — the riser state machine of highlight.rs agrees with the
    index-based layout specification.  `C16_layout_single_line` is the special
    case with single-line highlights only.  Other multi-line shapes are the
    recorded defect F10 and are NOT covered: the unrestricted statement
    `C16_layout_statement` is refuted by a concrete F10 witness
    (`C16_layout_statement_false`).  `C16_layout_report_partial` lifts the theorem
    to the whole plain report (`Spec.reportRows`), i.e. to exactly the comparison
    the differential driver makes.
  * `C16_strip_partial`: removing `ESC [ … m` sequences from one painted string
    gives the string back, when the string itself contains no ESC.
  * `C16_plain_is_coloured_stripped`: THE PLAIN RENDERING EQUALS THE COLOURED
    RENDERING WITH ESCAPE CODES REMOVED, for a whole report.  For every source and
    every report (any number of displays, highlights — single- or multi-line, of
    any shape, well-behaved or not —, notes; any span, canonical or not): writing
    the report with colour on and the real painter (`ansi`, what `colored`
    emits), then deleting every escape sequence `ESC … m` (`stripAnsi`, the
    two-state automaton the differential driver applies, `C16_strip_is_driver_strip`)
    gives exactly the result of writing it with colour off — the same string, or a
    panic on both sides.  Hypotheses, each shown necessary by a concrete
    counterexample below:
      - `ApiBuilt cd`: no error code and no highlight with a start message (for
        these the two code paths of the Rust print different text: the plain path
        drops `[code]`, and omits the newline after a multi-line start message);
      - `SrcNoEsc src`, `CdNoEsc cd`: the source text, the message, display names,
        highlight messages and notes contain no ESC character themselves (user
        data containing ESC is swallowed by any escape stripper).
    `C16_display_plain_is_coloured_stripped` is the same for one span display;
    `C16_strip_append` is the compositional fact behind it (stripping distributes
    over `++` when the left piece ends outside an escape sequence, which holds
    for every piece the renderer emits).

  Lean: `TephraModel.Render` against `TephraModel.Spec.RenderSpec`; a span is
  `t = a ++ mid ++ z` as in C18.  Unbounded in the text, the number of lines and
  the number of highlights (< 256 multi-line ones, as in the Rust).
-/
import TephraProofs.RenderProof
import TephraProofs.RenderStrip
import TephraModel.Render
import TephraModel.Spec.RenderSpec

namespace Tephra.Props
open Tephra Tephra.Render Tephra.Spec Tephra.LinesPf Tephra.RenderPf

theorem C16_gutter_shape (v : String) (w : Nat) :
    writeGutter plainPaint false v w = padLeft w v ++ " | " := rfl

theorem C16_gutter_colour_path_agrees (v : String) (w : Nat) :
    writeGutter plainPaint true v w = writeGutter plainPaint false v w := by
  simp [writeGutter, plainPaint, String.append_assoc]

theorem C16_riser_colour_path_agrees (h : Highlight) (line : Nat) (st : Riser) (active : Bool) :
    writeRiser plainPaint true h line st active = writeRiser plainPaint false h line st active := by
  cases st <;> simp [writeRiser, plainPaint]

theorem C16_mark_row_colour_path_agrees (h : Highlight) (line : Nat) (sp : Bool) (hs : h.startMsg = none) :
    writeMessage plainPaint true h line sp = writeMessage plainPaint false h line sp := by
  simp [writeMessage, plainPaint, hs]

example : padLeft 3 "10" = " 10" := by decide

/-! ### 1. colour path -/

/-- The colour code path under the identity painter is the plain code path. -/
theorem C16_colour_path_agrees (src : Source) (cd : CodeDisplay)
    (hstart : ∀ sd ∈ cd.spans, ∀ h ∈ sd.highlights, h.startMsg = none) (hcode : cd.codeId = none) :
    writeCodeDisplay plainPaint src { cd with colorEnabled := true } =
      writeCodeDisplay plainPaint src { cd with colorEnabled := false } :=
  writeCodeDisplay_colour src cd hstart hcode

/-- The same for one span display. -/
theorem C16_colour_path_agrees_display (src : Source) (sd : SpanDisplay)
    (hstart : ∀ h ∈ sd.highlights, h.startMsg = none) :
    writeSpanDisplay plainPaint true src sd = writeSpanDisplay plainPaint false src sd :=
  writeSpanDisplay_colour src sd hstart

/-! ### 2. no panic -/

/-- `SpanDisplay::new` on a canonical span succeeds, and writing the display with any
highlights (never two messages on one highlight, fewer than 256 multi-line ones) does not
panic — any painter, colour on or off. -/
theorem C16_render_total (paint : Style → String → String) (color : Bool)
    (m : Metrics) (_htab : 1 ≤ m.tab) (a mid z : Text) (hwf : Text.WF (a ++ mid ++ z))
    (ha1 : aligned m a (mid ++ z) = true) (ha2 : aligned m (a ++ mid) z = true)
    (name : Option String) (hls : List Highlight)
    (hmsg : ∀ h ∈ hls, h.startMsg = none ∨ h.endMsg = none)
    (hmulti : (hls.filter (·.isMultiline)).length < 256) :
    let src : Source := ⟨a ++ mid ++ z, m, Pos.zero⟩
    ∃ sd, SpanDisplay.new src name ⟨canon m a, canon m (a ++ mid)⟩ = .ok sd ∧
      writeSpanDisplay paint color src { sd with highlights := hls } ≠ .panic := by
  refine ⟨_, spanDisplay_new_ok m a mid z hwf ha1 ha2 name, ?_⟩
  obtain ⟨s, hs⟩ := writeSpanDisplay_ok paint color m a mid z hwf
    { name := name, span := widenSpec m a mid z, highlights := hls, notes := [],
      gutter := gutterWidth (canon m (a ++ mid)).line } rfl hmsg hmulti
  rw [hs]; simp

/-- a span display of the text `t` that `SpanDisplay::new` built from a canonical span, with
highlights and notes added afterwards -/
def CanonDisplay (m : Metrics) (t : Text) (sd : SpanDisplay) : Prop :=
  ∃ (a mid z : Text) (name : Option String) (sd0 : SpanDisplay),
    t = a ++ mid ++ z ∧ aligned m a (mid ++ z) = true ∧ aligned m (a ++ mid) z = true ∧
    SpanDisplay.new ⟨t, m, Pos.zero⟩ name ⟨canon m a, canon m (a ++ mid)⟩ = .ok sd0 ∧
    sd = { sd0 with highlights := sd.highlights, notes := sd.notes } ∧
    (∀ h ∈ sd.highlights, h.startMsg = none ∨ h.endMsg = none) ∧
    (sd.highlights.filter (·.isMultiline)).length < 256

/-- Writing a whole report whose displays are all of that kind does not panic. -/
theorem C16_render_total_report (paint : Style → String → String)
    (m : Metrics) (_htab : 1 ≤ m.tab) (t : Text) (hwf : Text.WF t) (cd : CodeDisplay)
    (hall : ∀ sd ∈ cd.spans, CanonDisplay m t sd) :
    writeCodeDisplay paint ⟨t, m, Pos.zero⟩ cd ≠ .panic := by
  obtain ⟨s, hs⟩ := writeCodeDisplay_ok paint ⟨t, m, Pos.zero⟩ cd (by
    intro sd hsd
    obtain ⟨a, mid, z, name, sd0, rfl, ha1, ha2, hnew, hsd0, hmsg, hmulti⟩ := hall sd hsd
    rw [spanDisplay_new_ok m a mid z hwf ha1 ha2 name] at hnew
    injection hnew with hnew
    exact writeSpanDisplay_ok paint cd.colorEnabled m a mid z hwf sd
      (by rw [hsd0, ← hnew]) hmsg hmulti)
  rw [hs]; simp

/-! ### 3. every line once, in order -/

/-- The body of a plain display: one block per line of the text `mid'` under the widened span
(`t = a0 ++ mid' ++ rem`, both cuts aligned), in order; block `i` is the source row of line `i`
(number `first + i`, text verbatim) followed by that line's mark rows. -/
theorem C16_lines_once_in_order (m : Metrics) (_htab : 1 ≤ m.tab) (a mid z : Text)
    (hwf : Text.WF (a ++ mid ++ z)) (sd : SpanDisplay) (hspan : sd.span = widenSpec m a mid z)
    (out : String)
    (h : writeSpanDisplay plainPaint false ⟨a ++ mid ++ z, m, Pos.zero⟩ sd = .ok out) :
    ∃ a0 mid' rem rows, a ++ mid ++ z = a0 ++ mid' ++ rem ∧
      sd.span = ⟨canon m a0, canon m (a0 ++ mid')⟩ ∧
      aligned m a0 (mid' ++ rem) = true ∧ aligned m (a0 ++ mid') rem = true ∧
      sd.span.e.line = sd.span.s.line + ((linesOf m mid').length - 1) ∧
      out = rep " " sd.gutter ++ "-->" ++ " " ++ (match sd.name with | some n => n ++ ":" | none => "")
              ++ "(" ++ showSpan sd.span ++ ")\n" ++ (padLeft sd.gutter "" ++ " | ") ++ "\n" ++
            String.join rows ++
            String.join (sd.notes.map fun n =>
              rep " " sd.gutter ++ " = " ++ writeNote plainPaint false n ++ "\n") ∧
      rows.length = (linesOf m mid').length ∧
      ∀ i l, (linesOf m mid')[i]? = some l → ∃ ris msgs,
        rows[i]? = some (padLeft sd.gutter (toString (sd.span.s.line + i)) ++ " | " ++ ris ++
          (if sd.highlights.any (·.isMultiline) then " " else "") ++ textString l ++ "\n" ++ msgs) ∧
        MsgRows sd.gutter sd.highlights (sd.span.s.line + i) msgs :=
  writeSpanDisplay_shape m a mid z hwf sd hspan out h

/-- The structured form: the loop over the pieces emits, for pieces that clip to the lines `L`
numbered from `n`, exactly one block per piece, in order. -/
theorem C16_lines_once_in_order_rows (src : Source) (w : Nat) (hls : List Highlight)
    (n : Nat) (L : List Text) (pieces : List Span) (sts : List Riser) (s : String)
    (hp : PiecesOK src n L pieces) (h : lineRows plainPaint false src w hls pieces sts = .ok s) :
    ∃ rows : List String, s = String.join rows ∧ rows.length = L.length ∧
      ∀ i l, L[i]? = some l → ∃ ris msgs,
        rows[i]? = some (padLeft w (toString (n + i)) ++ " | " ++ ris ++
          (if hls.any (·.isMultiline) then " " else "") ++ textString l ++ "\n" ++ msgs) ∧
        MsgRows w hls (n + i) msgs :=
  lineRows_shape src w hls n L pieces sts s hp h

/-- The pieces `SplitLines` yields on a canonical span are such pieces: piece `i` clips to
line `i` of the text under the span and carries line number `first + i`. -/
theorem C16_pieces_are_lines (m : Metrics) (_htab : 1 ≤ m.tab) (a mid z : Text)
    (hwf : Text.WF (a ++ mid ++ z))
    (ha1 : aligned m a (mid ++ z) = true) (ha2 : aligned m (a ++ mid) z = true) :
    let src : Source := ⟨a ++ mid ++ z, m, Pos.zero⟩
    (SplitLines.ofSpan ⟨canon m a, canon m (a ++ mid)⟩ src).collect
        ((canon m (a ++ mid)).line - (canon m a).line + 2) = .ok (splitSpec m a mid z, 0) ∧
      PiecesOK src (canon m a).line (linesOf m mid) ((splitSpec m a mid z).map (·.2)) :=
  ⟨collect_wide m a mid z hwf ha1 ha2, pieces_ok m z (linesOf m mid) a mid rfl hwf ha1 ha2⟩

/-! ### 4. gutters -/

/-- `{:>w$}` pads to `max w len`; digit counts are monotone; hence with the width chosen by
`SpanDisplay::new` (digits of the last line of the span; widening keeps that line) the gutter of
every line up to the last, and the blank gutter, are exactly that wide. -/
theorem C16_gutter_aligned :
    (∀ (w : Nat) (s : String), (padLeft w s).length = max w s.length) ∧
    (∀ line last : Nat, line ≤ last → (toString line).length ≤ gutterWidth last) ∧
    (∀ line last : Nat, line ≤ last →
      (padLeft (gutterWidth last) (toString line)).length = gutterWidth last) ∧
    (∀ w : Nat, (padLeft w "").length = w) ∧
    (∀ (m : Metrics) (a mid z : Text), aligned m (a ++ mid) z = true →
      (widenSpec m a mid z).e.line = (canon m (a ++ mid)).line) :=
  ⟨padLeft_length, fun _ _ h => gutterWidth_mono h, fun _ _ h => padLeft_gutter_length h,
    padLeft_empty_length, widen_e_line⟩

/-- In a display built by `SpanDisplay::new` from a canonical span, every source row's gutter
(lines `first … last` of the widened span) is exactly `sd.gutter` characters wide. -/
theorem C16_gutter_aligned_display (m : Metrics) (_htab : 1 ≤ m.tab) (a mid z : Text)
    (hwf : Text.WF (a ++ mid ++ z))
    (ha1 : aligned m a (mid ++ z) = true) (ha2 : aligned m (a ++ mid) z = true)
    (name : Option String) (sd : SpanDisplay)
    (hnew : SpanDisplay.new ⟨a ++ mid ++ z, m, Pos.zero⟩ name ⟨canon m a, canon m (a ++ mid)⟩ = .ok sd)
    (line : Nat) (hline : line ≤ sd.span.e.line) :
    (padLeft sd.gutter (toString line)).length = sd.gutter ∧ (padLeft sd.gutter "").length = sd.gutter := by
  rw [spanDisplay_new_ok m a mid z hwf ha1 ha2 name] at hnew
  injection hnew with hnew
  subst hnew
  simp only at hline ⊢
  rw [widen_e_line m a mid z ha2] at hline
  exact ⟨padLeft_gutter_length hline, padLeft_empty_length _⟩

/-! ### 5. layout -/

/-- The layout statement without the restriction to well-behaved highlights.  It does NOT
hold for the model (nor for the real code): multi-line highlights of other shapes are finding
F10, see `C16_layout_statement_false`.  `C16_layout_partial` is the proved part. -/
def C16_layout_statement : Prop :=
  ∀ (m : Metrics), 1 ≤ m.tab → ∀ (a mid z : Text), Text.WF (a ++ mid ++ z) →
    aligned m a (mid ++ z) = true → aligned m (a ++ mid) z = true →
    ∀ (name : Option String) (sd : SpanDisplay) (hls : List Highlight),
    SpanDisplay.new ⟨a ++ mid ++ z, m, Pos.zero⟩ name ⟨canon m a, canon m (a ++ mid)⟩ = .ok sd →
    (∀ h ∈ hls, h.startMsg = none ∧ ∃ msg, h.endMsg = some msg) →
    (hls.filter (·.isMultiline)).length < 256 →
    ∃ pieces n,
      (SplitLines.ofSpan sd.span ⟨a ++ mid ++ z, m, Pos.zero⟩).collect
        (sd.span.e.line - sd.span.s.line + 2) = .ok (pieces, n) ∧
      writeSpanDisplay plainPaint false ⟨a ++ mid ++ z, m, Pos.zero⟩ { sd with highlights := hls } =
        .ok ("\n".intercalate (displayRows name sd.span sd.gutter
              (pieceLines (a ++ mid ++ z) (pieces.map (·.2))) hls) ++ "\n")

/-- Finding F10, concretely: the LF text `ab⏎cd⏎ef`, displayed whole, with one multi-line
highlight that starts in the middle of line 0 (column 1) and ends in the middle of line 1. -/
def f10Metrics : Metrics := ⟨.lf, 4⟩
def f10Text : Text := [⟨97, 1, 1⟩, ⟨98, 1, 1⟩, ⟨10, 1, 0⟩, ⟨99, 1, 1⟩, ⟨100, 1, 1⟩, ⟨10, 1, 0⟩,
  ⟨101, 1, 1⟩, ⟨102, 1, 1⟩]
def f10Highlights : List Highlight := [⟨⟨⟨1, 0, 1⟩, ⟨4, 1, 1⟩⟩, none, some "m", .error⟩]

/-- Finding F10 refutes the unrestricted layout statement: for the display above the model
(and the real code) prints the riser `|` on the start-mark row and blanks below it,
`0 |   ab / | |_^ / 1 |   cd / |  _^ m`, where the layout asks for
`0 |   ab / |  _^ / 1 | | cd / | |_^ m`. -/
theorem C16_layout_statement_false : ¬ C16_layout_statement := by
  intro hst
  have hwf : Text.WF ([] ++ f10Text ++ []) := by
    intro c hc
    simp [f10Text] at hc
    rcases hc with rfl | rfl | rfl | rfl | rfl | rfl | rfl | rfl <;> decide
  have hw : widenSpec f10Metrics [] f10Text [] = ⟨canon f10Metrics [], canon f10Metrics ([] ++ f10Text)⟩ := by
    simp [widenSpec, curLinePre, curLineSuf]
  obtain ⟨pieces, n, hc, hout⟩ := hst f10Metrics (by decide) [] f10Text [] hwf (by decide) (by decide) none _ f10Highlights
    (spanDisplay_new_ok f10Metrics [] f10Text [] hwf (by decide) (by decide) none)
    (by intro h hh; simp [f10Highlights] at hh; subst hh; simp) (by decide)
  simp only [hw] at hc hout
  have hcol := collect_wide f10Metrics [] f10Text [] hwf (by decide) (by decide)
  rw [hcol] at hc
  injection hc with hc
  injection hc with hc1 hc2
  subst hc1
  have hp : PiecesOK ⟨[] ++ f10Text ++ [], f10Metrics, Pos.zero⟩ (canon f10Metrics []).line (linesOf f10Metrics f10Text)
      ((splitSpec f10Metrics [] f10Text []).map (·.2)) :=
    pieces_ok f10Metrics [] (linesOf f10Metrics f10Text) [] f10Text rfl hwf (by decide) (by decide)
  have hpieces : splitSpec f10Metrics [] f10Text [] =
      [(3, ⟨⟨0, 0, 0⟩, ⟨2, 0, 2⟩⟩), (2, ⟨⟨3, 1, 0⟩, ⟨5, 1, 2⟩⟩), (1, ⟨⟨6, 2, 0⟩, ⟨8, 2, 2⟩⟩)] := by
    simp [splitSpec, piecesFrom, canon, canonFrom, linesOf, breakAt, lbCodes, lbLen, stripCodes,
      colWidth, bytes, Pos.zero, f10Metrics, f10Text]
  have hL : linesOf f10Metrics f10Text = [[⟨97, 1, 1⟩, ⟨98, 1, 1⟩], [⟨99, 1, 1⟩, ⟨100, 1, 1⟩], [⟨101, 1, 1⟩, ⟨102, 1, 1⟩]] := by
    simp [linesOf, breakAt, lbCodes, stripCodes, f10Metrics, f10Text]
  have hcan1 : canon f10Metrics ([] ++ f10Text) = ⟨8, 2, 2⟩ := by
    simp [canon, canonFrom, linesOf, breakAt, lbCodes, stripCodes, colWidth, bytes, Pos.zero, f10Metrics, f10Text]
  rw [hL] at hp
  simp only [hpieces, List.map_cons, List.map_nil, PiecesOK] at hp
  obtain ⟨c1, s1, -, c2, s2, -, c3, s3, -, -⟩ := hp
  simp only [writeSpanDisplay, hcol, hpieces] at hout
  simp only [hcan1, canon_nil, List.map_cons, List.map_nil, lineRows, c1, c2, c3, pieceLines,
    List.filterMap_cons, List.filterMap_nil, s1, s2, s3] at hout
  revert hout
  decide

/-- Layout for well-behaved highlights (extra hypothesis `hwell`): the plain rendering of the
display is the specification's rows over the lines `SplitLines` yields, each followed by a
newline. -/
theorem C16_layout_partial (m : Metrics) (_htab : 1 ≤ m.tab) (a mid z : Text)
    (hwf : Text.WF (a ++ mid ++ z))
    (ha1 : aligned m a (mid ++ z) = true) (ha2 : aligned m (a ++ mid) z = true)
    (name : Option String) (sd : SpanDisplay) (hls : List Highlight)
    (hnew : SpanDisplay.new ⟨a ++ mid ++ z, m, Pos.zero⟩ name ⟨canon m a, canon m (a ++ mid)⟩ = .ok sd)
    (hmsg : ∀ h ∈ hls, h.startMsg = none ∧ ∃ msg, h.endMsg = some msg)
    (hmulti : (hls.filter (·.isMultiline)).length < 256)
    (hwell : ∀ h ∈ hls, wellBehaved sd.span.s.line sd.span.e.line h = true) :
    ∃ pieces n,
      (SplitLines.ofSpan sd.span ⟨a ++ mid ++ z, m, Pos.zero⟩).collect
        (sd.span.e.line - sd.span.s.line + 2) = .ok (pieces, n) ∧
      writeSpanDisplay plainPaint false ⟨a ++ mid ++ z, m, Pos.zero⟩ { sd with highlights := hls } =
        .ok ("\n".intercalate (displayRows name sd.span sd.gutter
              (pieceLines (a ++ mid ++ z) (pieces.map (·.2))) hls) ++ "\n") := by
  rw [spanDisplay_new_ok m a mid z hwf ha1 ha2 name] at hnew
  injection hnew with hnew
  subst hnew
  exact writeSpanDisplay_layout_canon m a mid z hwf
    { name := name, span := widenSpec m a mid z, highlights := hls, notes := [],
      gutter := gutterWidth (canon m (a ++ mid)).line } rfl rfl hmulti
    (fun h hh => ⟨hwell h hh, (hmsg h hh).1, (hmsg h hh).2⟩)

/-- Non-vacuity: the LF text `ab⏎cd⏎ef`, the span over all of it, a multi-line highlight from
the start of line 0 to the middle of line 1 and a single-line highlight on line 2 satisfy every
hypothesis of `C16_layout_partial`. -/
example :
    let m : Metrics := ⟨.lf, 4⟩
    let a : Text := []
    let mid : Text := [⟨97, 1, 1⟩, ⟨98, 1, 1⟩, ⟨10, 1, 0⟩, ⟨99, 1, 1⟩, ⟨100, 1, 1⟩, ⟨10, 1, 0⟩,
      ⟨101, 1, 1⟩, ⟨102, 1, 1⟩]
    let z : Text := []
    let hls : List Highlight := [⟨⟨⟨0, 0, 0⟩, ⟨4, 1, 1⟩⟩, none, some "multi", .error⟩,
      ⟨⟨⟨6, 2, 0⟩, ⟨8, 2, 2⟩⟩, none, some "single", .note⟩]
    1 ≤ m.tab ∧ Text.WF (a ++ mid ++ z) ∧ aligned m a (mid ++ z) = true ∧
      aligned m (a ++ mid) z = true ∧
      ∃ sd, SpanDisplay.new ⟨a ++ mid ++ z, m, Pos.zero⟩ (some "src")
          ⟨canon m a, canon m (a ++ mid)⟩ = .ok sd ∧
        (∀ h ∈ hls, h.startMsg = none ∧ ∃ msg, h.endMsg = some msg) ∧
        (hls.filter (·.isMultiline)).length < 256 ∧
        (∀ h ∈ hls, wellBehaved sd.span.s.line sd.span.e.line h = true) ∧
        (∃ h ∈ hls, h.isMultiline = true) := by
  intro m a mid z hls
  have hwf : Text.WF (a ++ mid ++ z) := by
    intro c hc
    simp [a, mid, z] at hc
    rcases hc with rfl | rfl | rfl | rfl | rfl | rfl | rfl | rfl <;> decide
  refine ⟨by decide, hwf, by decide, by decide, _,
    spanDisplay_new_ok m a mid z hwf (by decide) (by decide) (some "src"), ?_, by decide, ?_, ?_⟩
  · intro h hh
    simp [hls] at hh
    rcases hh with rfl | rfl <;> simp
  · have hw : widenSpec m a mid z = ⟨⟨0, 0, 0⟩, ⟨8, 2, 2⟩⟩ := by
      simp [widenSpec, curLinePre, curLineSuf, canon, canonFrom, linesOf, breakAt, lbCodes, stripCodes,
        colWidth, bytes, Pos.zero, m, a, mid, z]
    intro h hh
    simp [hls] at hh
    rcases hh with rfl | rfl <;> simp [hw, wellBehaved, Highlight.isMultiline]
  · exact ⟨_, List.mem_cons_self, by decide⟩

/-- The special case of single-line highlights only. -/
theorem C16_layout_single_line (m : Metrics) (_htab : 1 ≤ m.tab) (a mid z : Text)
    (hwf : Text.WF (a ++ mid ++ z))
    (ha1 : aligned m a (mid ++ z) = true) (ha2 : aligned m (a ++ mid) z = true)
    (name : Option String) (sd : SpanDisplay) (hls : List Highlight)
    (hnew : SpanDisplay.new ⟨a ++ mid ++ z, m, Pos.zero⟩ name ⟨canon m a, canon m (a ++ mid)⟩ = .ok sd)
    (hmsg : ∀ h ∈ hls, h.startMsg = none ∧ ∃ msg, h.endMsg = some msg)
    (hsingle : ∀ h ∈ hls, h.isMultiline = false) :
    ∃ pieces n,
      (SplitLines.ofSpan sd.span ⟨a ++ mid ++ z, m, Pos.zero⟩).collect
        (sd.span.e.line - sd.span.s.line + 2) = .ok (pieces, n) ∧
      writeSpanDisplay plainPaint false ⟨a ++ mid ++ z, m, Pos.zero⟩ { sd with highlights := hls } =
        .ok ("\n".intercalate (displayRows name sd.span sd.gutter
              (pieceLines (a ++ mid ++ z) (pieces.map (·.2))) hls) ++ "\n") := by
  refine C16_layout_partial m _htab a mid z hwf ha1 ha2 name sd hls hnew hmsg ?_ ?_
  · have : hls.filter (·.isMultiline) = [] := by
      rw [List.filter_eq_nil_iff]; intro h hh; simp [hsingle h hh]
    rw [this]; simp
  · intro h hh; simp [wellBehaved, hsingle h hh]

/-- The abstract form of the layout theorem (any source; hypotheses on the pieces). -/
theorem C16_layout_pieces (src : Source) (sd : SpanDisplay) (pieces : List (Nat × Span))
    (n first last : Nat)
    (hcollect : (SplitLines.ofSpan sd.span src).collect (sd.span.e.line - sd.span.s.line + 2) =
      .ok (pieces, n))
    (hnotes : sd.notes = [])
    (hlen : (sd.highlights.filter (·.isMultiline)).length < 256)
    (hok : ∀ h ∈ sd.highlights,
      wellBehaved first last h = true ∧ h.startMsg = none ∧ ∃ msg, h.endMsg = some msg)
    (lines : List (Nat × String))
    (hlines : lines.map (·.1) = pieces.map (·.2.s.line))
    (hfirst : ∃ rest, pieces.map (·.2.s.line) = first :: rest)
    (hclip : ∀ p ∈ pieces, ∃ piece, src.clipped p.2 = .ok piece ∧
      textString piece.text = ((lines.find? (·.1 == p.2.s.line)).map (·.2)).getD "") :
    writeSpanDisplay plainPaint false src sd =
      .ok ("\n".intercalate (displayRows sd.name sd.span sd.gutter lines sd.highlights) ++ "\n") :=
  writeSpanDisplay_layout src sd pieces n first last hcollect hnotes hlen hok lines hlines hfirst hclip

/-- the lines the layout oracle takes from `SplitLines` for a display (as `specRender` does) -/
def displayLines (src : Source) (sd : SpanDisplay) : List (Nat × String) :=
  match (SplitLines.ofSpan sd.span src).collect (sd.span.e.line - sd.span.s.line + 2) with
  | .ok (pieces, _) => pieceLines src.text (pieces.map (·.2))
  | .panic => []

/-- a display of the text `t` built by `SpanDisplay::new` from a canonical span, with
well-behaved highlights (each with exactly an end message) added afterwards -/
def WellDisplay (m : Metrics) (t : Text) (sd : SpanDisplay) : Prop :=
  ∃ (a mid z : Text) (name : Option String) (sd0 : SpanDisplay),
    t = a ++ mid ++ z ∧ aligned m a (mid ++ z) = true ∧ aligned m (a ++ mid) z = true ∧
    SpanDisplay.new ⟨t, m, Pos.zero⟩ name ⟨canon m a, canon m (a ++ mid)⟩ = .ok sd0 ∧
    sd = { sd0 with highlights := sd.highlights } ∧
    (∀ h ∈ sd.highlights, h.startMsg = none ∧ ∃ msg, h.endMsg = some msg) ∧
    (sd.highlights.filter (·.isMultiline)).length < 256 ∧
    (∀ h ∈ sd.highlights, wellBehaved sd.span.s.line sd.span.e.line h = true)

/-- Layout of the whole plain report (extra hypothesis: every display is a `WellDisplay`, no
report-level notes): the output is `Spec.reportRows`, each row followed by a newline — the
comparison the differential driver makes (`specRender`), proved for all inputs. -/
theorem C16_layout_report_partial (m : Metrics) (_htab : 1 ≤ m.tab) (t : Text) (hwf : Text.WF t)
    (cd : CodeDisplay) (hcolor : cd.colorEnabled = false) (hnotes : cd.notes = [])
    (hall : ∀ sd ∈ cd.spans, WellDisplay m t sd) :
    writeCodeDisplay plainPaint ⟨t, m, Pos.zero⟩ cd =
      .ok ("\n".intercalate (reportRows cd.mtype cd.message
        (cd.spans.map fun sd =>
          (sd.name, sd.span, sd.gutter, displayLines ⟨t, m, Pos.zero⟩ sd, sd.highlights))) ++ "\n") := by
  apply writeCodeDisplay_layout _ cd hcolor hnotes
  intro sd hsd
  obtain ⟨a, mid, z, name, sd0, rfl, ha1, ha2, hnew, hsd0, hmsg, hmulti, hwell⟩ := hall sd hsd
  rw [spanDisplay_new_ok m a mid z hwf ha1 ha2 name] at hnew
  injection hnew with hnew
  have hspan : sd.span = widenSpec m a mid z := by rw [hsd0, ← hnew]
  have hno : sd.notes = [] := by rw [hsd0, ← hnew]
  obtain ⟨pieces, n, hc, hw⟩ := writeSpanDisplay_layout_canon m a mid z hwf sd hspan hno hmulti
    (fun h hh => ⟨hwell h hh, (hmsg h hh).1, (hmsg h hh).2⟩)
  rw [hw]
  simp only [displayLines, hc]

/-! ### 6. escape codes -/

/-- Removing `ESC [ … m` sequences from one painted string gives the string back (extra
hypothesis: the string itself contains no ESC). -/
theorem C16_strip_partial (st : Style) (s : String) (h : ∀ c ∈ s.toList, c.toNat ≠ 27) :
    Fam.RenderF.stripAnsi ((ansi st s).toList.map (·.toNat)) = s.toList.map (·.toNat) :=
  stripAnsi_ansi st s h

/-- `stripAnsi` (on strings) is the function the differential driver applies to the coloured
output (on code points). -/
theorem C16_strip_is_driver_strip (s : String) :
    Fam.RenderF.stripAnsi (s.toList.map (·.toNat)) = (stripAnsi s).toList.map (·.toNat) :=
  stripAnsi_bridge s

/-- Stripping distributes over `++` when the left piece, read from outside an escape sequence,
ends outside one (`Strips a a'`: it then emits `a'`). -/
theorem C16_strip_append {a a' : String} (h : Strips a a') (b : String) :
    stripAnsi (a ++ b) = stripAnsi a ++ stripAnsi b :=
  stripAnsi_append h b

/-- The plain rendering equals the coloured rendering with escape codes removed: a whole
report, any source.  `ApiBuilt cd`: `cd.codeId = none` and no highlight has a start message;
`SrcNoEsc src`: no character of the source text is ESC; `CdNoEsc cd`: the message, error code,
display names, highlight messages and note texts contain no ESC. -/
theorem C16_plain_is_coloured_stripped (src : Source) (cd : CodeDisplay)
    (hapi : ApiBuilt cd) (hsrc : SrcNoEsc src) (hcd : CdNoEsc cd) :
    (writeCodeDisplay ansi src { cd with colorEnabled := true }).map stripAnsi =
      writeCodeDisplay plainPaint src { cd with colorEnabled := false } :=
  plain_is_coloured_stripped src cd hapi hsrc hcd

/-- The same for one span display. -/
theorem C16_display_plain_is_coloured_stripped (src : Source) (sd : SpanDisplay)
    (hstart : ∀ h ∈ sd.highlights, h.startMsg = none) (hsrc : SrcNoEsc src) (hsd : SdNoEsc sd) :
    (writeSpanDisplay ansi true src sd).map stripAnsi = writeSpanDisplay plainPaint false src sd :=
  display_plain_is_coloured_stripped src sd hstart hsrc hsd

/-- the LF text `ab⏎cd` -/
def stripSrc : Source :=
  ⟨[⟨97, 1, 1⟩, ⟨98, 1, 1⟩, ⟨10, 1, 0⟩, ⟨99, 1, 1⟩, ⟨100, 1, 1⟩], ⟨.lf, 4⟩, Pos.zero⟩

/-- a report on it: one display of both lines with a multi-line highlight (line 0 column 0 to
line 1 column 1), a single-line highlight (line 1), a display note and a report note -/
def stripCd : CodeDisplay :=
  { message := "bad", mtype := .error, codeId := none,
    spans := [{ name := some "src", span := ⟨⟨0, 0, 0⟩, ⟨5, 1, 2⟩⟩,
                highlights := [⟨⟨⟨0, 0, 0⟩, ⟨4, 1, 1⟩⟩, none, some "multi", .error⟩,
                               ⟨⟨⟨3, 1, 0⟩, ⟨5, 1, 2⟩⟩, none, some "single", .note⟩],
                notes := [⟨.help, "try"⟩], gutter := 1 }],
    notes := [⟨.note, "see"⟩], colorEnabled := false }

/-- Non-vacuity: the report above satisfies the three hypotheses, renders (plain) to the eight
rows shown, and hence so does its coloured rendering once stripped. -/
example :
    ApiBuilt stripCd ∧ SrcNoEsc stripSrc ∧ CdNoEsc stripCd ∧
    writeCodeDisplay plainPaint stripSrc { stripCd with colorEnabled := false } =
      .ok ("error: bad\n --> src:(0:0-1:2, bytes 0-5)\n  | \n0 | / ab\n1 | | cd\n" ++
           "  | |_^ multi\n  |   -- single\n  = help: try\nnote: see") ∧
    (writeCodeDisplay ansi stripSrc { stripCd with colorEnabled := true }).map stripAnsi =
      .ok ("error: bad\n --> src:(0:0-1:2, bytes 0-5)\n  | \n0 | / ab\n1 | | cd\n" ++
           "  | |_^ multi\n  |   -- single\n  = help: try\nnote: see") := by
  have h1 : ApiBuilt stripCd := by decide
  have h2 : SrcNoEsc stripSrc := by decide
  have h3 : CdNoEsc stripCd := by decide
  have h4 : writeCodeDisplay plainPaint stripSrc { stripCd with colorEnabled := false } =
      .ok ("error: bad\n --> src:(0:0-1:2, bytes 0-5)\n  | \n0 | / ab\n1 | | cd\n" ++
           "  | |_^ multi\n  |   -- single\n  = help: try\nnote: see") := by decide +kernel
  exact ⟨h1, h2, h3, h4, (C16_plain_is_coloured_stripped stripSrc stripCd h1 h2 h3).trans h4⟩

/-- Necessity of `CdNoEsc`: a report whose message is `ESC m` (nothing else) — the stripper
swallows the message. -/
def escMsgCd : CodeDisplay :=
  { message := "\x1bm", mtype := .info, codeId := none, spans := [], notes := [], colorEnabled := false }

example :
    ApiBuilt escMsgCd ∧ SrcNoEsc stripSrc ∧
    (writeCodeDisplay ansi stripSrc { escMsgCd with colorEnabled := true }).map stripAnsi ≠
      writeCodeDisplay plainPaint stripSrc { escMsgCd with colorEnabled := false } := by
  decide +kernel

/-- Necessity of `SrcNoEsc`: the source text `ESC m`, displayed whole. -/
def escSrc : Source := ⟨[⟨27, 1, 0⟩, ⟨109, 1, 1⟩], ⟨.lf, 4⟩, Pos.zero⟩
def escSrcCd : CodeDisplay :=
  { message := "m", mtype := .info, codeId := none,
    spans := [{ name := none, span := ⟨⟨0, 0, 0⟩, ⟨2, 0, 1⟩⟩, highlights := [], notes := [], gutter := 1 }],
    notes := [], colorEnabled := false }

example :
    ApiBuilt escSrcCd ∧ CdNoEsc escSrcCd ∧
    (writeCodeDisplay ansi escSrc { escSrcCd with colorEnabled := true }).map stripAnsi ≠
      writeCodeDisplay plainPaint escSrc { escSrcCd with colorEnabled := false } := by
  decide +kernel

/-- Necessity of "no error code" in `ApiBuilt`: the colour path prints `info[E1]: m`, the plain
path `info: m`. -/
def codeCd : CodeDisplay :=
  { message := "m", mtype := .info, codeId := some "E1", spans := [], notes := [], colorEnabled := false }

example :
    SrcNoEsc stripSrc ∧ CdNoEsc codeCd ∧
    (writeCodeDisplay ansi stripSrc { codeCd with colorEnabled := true }).map stripAnsi ≠
      writeCodeDisplay plainPaint stripSrc { codeCd with colorEnabled := false } := by
  decide +kernel

/-- Necessity of "no start message" in `ApiBuilt`: a multi-line highlight with a start message —
the plain path omits the newline after it (`  | |_^ s1 |   cd`). -/
def startMsgCd : CodeDisplay :=
  { message := "m", mtype := .info, codeId := none,
    spans := [{ name := none, span := ⟨⟨0, 0, 0⟩, ⟨5, 1, 2⟩⟩,
                highlights := [⟨⟨⟨1, 0, 1⟩, ⟨4, 1, 1⟩⟩, some "s", none, .error⟩], notes := [], gutter := 1 }],
    notes := [], colorEnabled := false }

example :
    SrcNoEsc stripSrc ∧ CdNoEsc startMsgCd ∧
    (writeCodeDisplay ansi stripSrc { startMsgCd with colorEnabled := true }).map stripAnsi ≠
      writeCodeDisplay plainPaint stripSrc { startMsgCd with colorEnabled := false } := by
  decide +kernel

end Tephra.Props
