/-
  C05 — lookahead, cloning and sub-lexing are unobservable in the token stream.
  INTERIM file: proved here, for every scanner and filter table —
  (1) a lookahead on a lexer that already holds one changes nothing at all;
  (2) advancing a lexer that holds a lookahead delivers exactly the looked-ahead
      token, with exactly the looked-ahead span, and installs exactly the
      scanner state that produced it;
  (3) the history interpreter never lets an operation on a clone touch the
      original (clones are values: `fork_frame`).
  The refinement theorem `C05_partial` (delivered tokens of any sub-lex-free
  history = those of its projection onto advances and filter changes) is being
  added; until then that clause is carried by the `lexops` family + oracle.
  The recorded finding F19 (sub-lex mark then filter change) is replayed by the
  check.
-/
import TephraModel.Fam.Lex

namespace Tephra.Props
open Tephra

variable {σ τ : Type} (E : LexEnv σ τ)

theorem C05_peek_idempotent (lx : Lexer σ τ) (b : Buf σ τ) (hb : lx.buffer = some b)
    (hlen : lx.cursor.byte < lx.len) :
    lx.peek E = (some b.token, lx) := by
  have : ¬ lx.len ≤ lx.cursor.byte := by omega
  simp [Lexer.peek, this, Lexer.bufferNext, hb]

theorem C05_next_delivers_lookahead (lx : Lexer σ τ) (b : Buf σ τ) (hb : lx.buffer = some b)
    (hlen : lx.cursor.byte < lx.len) :
    (lx.next E).1 = some b.token ∧
    (lx.next E).2.tokenSpan = Span.enclosing b.peekStart b.peekCursor ∧
    (lx.next E).2.scanner = b.peekScanner ∧
    (lx.next E).2.buffer = none := by
  have : ¬ lx.len ≤ lx.cursor.byte := by omega
  simp [Lexer.next, this, hb, Lexer.tokenSpan]

/-- Operations inside a fork act on the clone only: after the matching `forkEnd`
the interpreter continues with the original stack, whatever the (fork-free)
body did — for every scanner, filter table and token type. -/
theorem C05_fork_frame (top : Lexer σ τ) (rest : List (Lexer σ τ))
    (body ops : List (LexOps.Op τ))
    (hbody : ∀ op ∈ body, (∀ (h : op = .forkBegin), False) ∧ (∀ (h : op = .forkEnd), False)) :
    ∃ pre, LexOps.exec E (top :: rest) (.forkBegin :: body ++ .forkEnd :: ops)
      = pre ++ LexOps.exec E (top :: rest) ops ∧ pre.length = body.length + 2 := by
  have key : ∀ (c : Lexer σ τ) (body : List (LexOps.Op τ)),
      (∀ op ∈ body, (∀ (h : op = .forkBegin), False) ∧ (∀ (h : op = .forkEnd), False)) →
      ∃ pre, LexOps.exec E (c :: top :: rest) (body ++ .forkEnd :: ops)
        = pre ++ LexOps.exec E (top :: rest) ops ∧ pre.length = body.length + 1 := by
    intro c body
    induction body generalizing c with
    | nil =>
      intro _
      refine ⟨[(.unit, top)], ?_, rfl⟩
      simp [LexOps.exec]
    | cons op body ih =>
      intro h
      have hop := h op (by simp)
      have hrest : ∀ o ∈ body, (∀ (h : o = .forkBegin), False) ∧ (∀ (h : o = .forkEnd), False) :=
        fun o ho => h o (by simp [ho])
      cases op with
      | forkBegin => exact absurd rfl (fun e => hop.1 e)
      | forkEnd => exact absurd rfl (fun e => hop.2 e)
      | _ =>
        all_goals
          simp only [List.cons_append, LexOps.exec]
          obtain ⟨pre, hp, hl⟩ := ih _ hrest
          exact ⟨_ :: pre, by rw [hp]; rfl, by simp [hl]⟩
  obtain ⟨pre, hp, hl⟩ := key top body hbody
  refine ⟨(.unit, top) :: pre, ?_, by simp [hl]⟩
  simp only [LexOps.exec, List.cons_append]
  rw [hp]

/-- Non-vacuity of (1)/(2): a lexer holding a lookahead inside the text. -/
example : ∃ (lx : Lexer Nat Nat) (b : Buf Nat Nat), lx.buffer = some b ∧ lx.cursor.byte < lx.len :=
  ⟨{ metrics := ⟨.lf, 4⟩, len := 3, scanner := 0, filter := none, recover := none,
     buffer := some ⟨1, ⟨0,0,0⟩, ⟨1,0,1⟩, 7⟩, parseStart := Pos.zero, tokenStart := Pos.zero,
     cursor := Pos.zero }, ⟨1, ⟨0,0,0⟩, ⟨1,0,1⟩, 7⟩, rfl, by decide⟩

end Tephra.Props
