/-
  C05 — lookahead, cloning and sub-lexing are unobservable in the token stream.

  English.  Fix a scanner, a text length and column metrics such that the scanner
  honours its contract: `ScanOK` (a produced token is non-empty and ends inside
  the text; at or past the end nothing is produced) and `ScanFinal` (a refusal is
  final: if the scanner declines at a position, then in the state it was left in
  it declines there again).  A *history* is any finite sequence of public `Lexer`
  calls on a fresh lexer — `next`, `peek`, `is_empty_with_filter` (a lookahead that answers a flag), `next_if`, `advance_to`,
  `advance_up_to`, `set_filter`, `with_filter`, span queries, sub-lex marks — where
  `forkBegin … forkEnd` clones the current lexer, runs the enclosed calls on the
  clone and drops it (`LexOps.exec`).  Its *projection* erases clone bodies,
  `peek`, `is_empty_with_filter`, sub-lex marks and span queries and keeps the advances and filter changes.
  What a history *delivers* is, for every advance outside clones, its result and —
  when a token is returned — `token_span()` right after it (`LexOps.delivered`).

  * `C05_partial`: a history without sub-lex marks outside clones (and without
    metrics builders) delivers exactly what its projection delivers: lookahead and
    cloning are unobservable.
  * `C05_scan_state_sequential`: every token such a history delivers is a token of
    the raw stream (scan sequentially from position zero, `Spec.rawFrom`) with that
    raw token's span — for a stateful scanner whose tokens expose the state, the
    state that produced a delivered token is the sequential one.
  * `C05_statement` (the same as `C05_partial` for *all* metrics-free histories,
    sub-lex marks included) is FALSE of the code: `C05_finding_F19` — on the text
    `a ws b` with a filter rejecting `ws`, `with_filter; next; start_sublex;
    set_filter(None); next` delivers `b`, its projection delivers `ws`
    (`start_sublex` on a lexer without lookahead eagerly skips filtered tokens).
  * `C05_sublex`: the statement holds on the complement of the finding.  Walk along
    the run of the history, outside clones: a sub-lex mark sets a flag "pending"; an
    advance that consumed a token — `next` / `next_if` that returned a token,
    `advance_to` that returned `true` — clears it; a filter change (`set_filter` /
    `with_filter`) is allowed only while the flag is clear (`LexOpsProof.sublexOK`,
    a function of the calls and their answers).  Every metrics-free history whose
    run passes this check delivers exactly what its projection delivers: sub-lex
    marks, lookahead and cloning are unobservable.  `C05_sublex_scan_state_sequential`
    is the scanner-state clause for these histories.
  * `C05_sublex_syntactic`: the same under a condition on the calls alone: outside
    clones no filter change after the first sub-lex mark (`noFilterAfterSublex`);
    `C05_partial_is_an_instance`: histories without sub-lex marks satisfy it.
  * `C05_F19_signature_too_narrow`: the signature of F19 as the test oracle computes
    it (`Fam.Lex.sublexThenFilter`; here `LexOpsProof.oracleSig`, on the model's own
    answers) also lets `advance_up_to` that answered `true` clear "pending"; but that
    call stops *before* the token it found and may consume nothing.  `with_filter;
    next; start_sublex; advance_up_to(b); set_filter(None); next` on `a ws b` is not
    flagged by that signature and still delivers `b` where its projection delivers
    `ws`.  So the exact complement of the recorded signature is not enough; the
    corrected one (an answer `true` of `advance_up_to` does not clear the flag) is
    what `C05_sublex` uses.
  * `C05_needs_final_refusal`: without `ScanFinal` the partial statement is false
    too, with no sub-lex mark: a scanner that declines once and then, re-asked at
    the same position, produces a filtered token (`next` keeps the scanner state of
    a declined scan, `peek` discards it).
  * The three interim theorems are kept: (1) a lookahead on a lexer that already
    holds one changes nothing; (2) advancing a lexer that holds a lookahead delivers
    exactly the looked-ahead token/span/scanner state; (3) `fork_frame`.

  Lean: `Lexer.*` is the model of `lexer.rs` (TephraModel.Lexer), `LexOps.*` the
  history interpreter shared with the driver, which checks model = implementation
  state by state on generated histories.  Unbounded: any scanner state type, token
  type, scanner function, filter table, metrics, length, history (any nesting of
  clones, unbalanced `forkEnd` included).
-/
import TephraModel.Fam.Lex
import TephraProofs.LexOpsProof
import TephraProofs.LexOpsSublex

namespace Tephra.Props
open Tephra

variable {σ τ : Type} (E : LexEnv σ τ)

theorem C05_peek_idempotent (lx : Lexer σ τ) (b : Buf σ τ) (hb : lx.buffer = some b)
    (hlen : lx.cursor.byte < lx.len) :
    lx.peek E = (some b.token, lx) := by
  have : ¬ lx.len ≤ lx.cursor.byte := by omega
  simp [Lexer.peek, this, Lexer.bufferNext, hb]

theorem C05_next_delivers_lookahead (lx : Lexer σ τ) (b : Buf σ τ) (hb : lx.buffer = some b)
    (hlen : lx.cursor.byte < lx.len) :
    (lx.next E).1 = some b.token ∧
    (lx.next E).2.tokenSpan = Span.enclosing b.peekStart b.peekCursor ∧
    (lx.next E).2.scanner = b.peekScanner ∧
    (lx.next E).2.buffer = none := by
  have : ¬ lx.len ≤ lx.cursor.byte := by omega
  simp [Lexer.next, this, hb, Lexer.tokenSpan]

/-- Operations inside a fork act on the clone only: after the matching `forkEnd`
the interpreter continues with the original stack, whatever the (fork-free)
body did — for every scanner, filter table and token type. -/
theorem C05_fork_frame (top : Lexer σ τ) (rest : List (Lexer σ τ))
    (body ops : List (LexOps.Op τ))
    (hbody : ∀ op ∈ body, (∀ (h : op = .forkBegin), False) ∧ (∀ (h : op = .forkEnd), False)) :
    ∃ pre, LexOps.exec E (top :: rest) (.forkBegin :: body ++ .forkEnd :: ops)
      = pre ++ LexOps.exec E (top :: rest) ops ∧ pre.length = body.length + 2 := by
  have key : ∀ (c : Lexer σ τ) (body : List (LexOps.Op τ)),
      (∀ op ∈ body, (∀ (h : op = .forkBegin), False) ∧ (∀ (h : op = .forkEnd), False)) →
      ∃ pre, LexOps.exec E (c :: top :: rest) (body ++ .forkEnd :: ops)
        = pre ++ LexOps.exec E (top :: rest) ops ∧ pre.length = body.length + 1 := by
    intro c body
    induction body generalizing c with
    | nil =>
      intro _
      refine ⟨[(.unit, top)], ?_, rfl⟩
      simp [LexOps.exec]
    | cons op body ih =>
      intro h
      have hop := h op (by simp)
      have hrest : ∀ o ∈ body, (∀ (h : o = .forkBegin), False) ∧ (∀ (h : o = .forkEnd), False) :=
        fun o ho => h o (by simp [ho])
      cases op with
      | forkBegin => exact absurd rfl (fun e => hop.1 e)
      | forkEnd => exact absurd rfl (fun e => hop.2 e)
      | _ =>
        all_goals
          simp only [List.cons_append, LexOps.exec]
          obtain ⟨pre, hp, hl⟩ := ih _ hrest
          exact ⟨_ :: pre, by rw [hp]; rfl, by simp [hl]⟩
  obtain ⟨pre, hp, hl⟩ := key top body hbody
  refine ⟨(.unit, top) :: pre, ?_, by simp [hl]⟩
  simp only [LexOps.exec, List.cons_append]
  rw [hp]

/-- Non-vacuity of (1)/(2): a lexer holding a lookahead inside the text. -/
example : ∃ (lx : Lexer Nat Nat) (b : Buf Nat Nat), lx.buffer = some b ∧ lx.cursor.byte < lx.len :=
  ⟨{ metrics := ⟨.lf, 4⟩, len := 3, scanner := 0, filter := none, recover := none,
     buffer := some ⟨1, ⟨0,0,0⟩, ⟨1,0,1⟩, 7⟩, parseStart := Pos.zero, tokenStart := Pos.zero,
     cursor := Pos.zero }, ⟨1, ⟨0,0,0⟩, ⟨1,0,1⟩, 7⟩, rfl, by decide⟩

/-! ### the refinement theorem -/

/-- FULL statement (false of the code because of F19 — kept as a def). -/
def C05_statement : Prop :=
  ∀ {σ τ : Type} (E : LexEnv σ τ) (m : Metrics) (len : Nat) (s0 : σ), ScanOK E m len → ScanFinal E m →
  ∀ ops : List (LexOps.Op τ), LexOps.metricsFree ops = true →
    LexOps.delivered ops (LexOps.exec E [Lexer.new s0 m len] ops)
      = LexOps.delivered (LexOps.project ops) (LexOps.exec E [Lexer.new s0 m len] (LexOps.project ops))

/-- PROVED: the same for histories without sub-lex marks outside forks. -/
theorem C05_partial {σ τ : Type} (E : LexEnv σ τ) (m : Metrics) (len : Nat) (s0 : σ)
    (ok : ScanOK E m len) (fin : ScanFinal E m)
    (ops : List (LexOps.Op τ)) (hm : LexOps.metricsFree ops = true) (hs : LexOps.sublexFree ops = true) :
    LexOps.delivered ops (LexOps.exec E [Lexer.new s0 m len] ops)
      = LexOps.delivered (LexOps.project ops) (LexOps.exec E [Lexer.new s0 m len] (LexOps.project ops)) :=
  LexOpsProof.partial_ ok fin s0 ops hm hs

/-- The scanner state used to produce each delivered token is the state reached by
scanning sequentially up to that token: every delivered token is a token of the
raw stream, with exactly that raw token's span. -/
theorem C05_scan_state_sequential {σ τ : Type} (E : LexEnv σ τ) (m : Metrics) (len : Nat) (s0 : σ)
    (ok : ScanOK E m len) (fin : ScanFinal E m)
    (ops : List (LexOps.Op τ)) (hm : LexOps.metricsFree ops = true) (hs : LexOps.sublexFree ops = true)
    (t : τ) (sp : Span)
    (h : (LexOps.Out.tok (some t), some sp) ∈ LexOps.delivered ops (LexOps.exec E [Lexer.new s0 m len] ops)) :
    ∃ r ∈ Spec.rawFrom E.scan m (len + 1) s0 Pos.zero, r.tok = t ∧ sp = ⟨r.start, r.stop⟩ :=
  LexOpsProof.sequential ok fin s0 ops hm hs _ h t sp rfl

open LexOpsProof.Witness in
/-- F19: the full statement fails for a stateless table scanner on `a ws b`. -/
theorem C05_finding_F19 : ¬ C05_statement := by
  intro h
  have := congrArg (List.map (·.1)) (h ET mT 3 () scanT_ok scanT_final opsF19 rfl)
  rw [F19_full, F19_projected] at this
  simp at this

open LexOpsProof.Witness in
/-- Why `ScanFinal` is a hypothesis: with `ScanOK` alone the partial statement fails. -/
theorem C05_needs_final_refusal :
    ¬ (∀ {σ τ : Type} (E : LexEnv σ τ) (m : Metrics) (len : Nat) (s0 : σ), ScanOK E m len →
      ∀ ops : List (LexOps.Op τ), LexOps.metricsFree ops = true → LexOps.sublexFree ops = true →
        LexOps.delivered ops (LexOps.exec E [Lexer.new s0 m len] ops)
          = LexOps.delivered (LexOps.project ops)
              (LexOps.exec E [Lexer.new s0 m len] (LexOps.project ops))) := by
  intro h
  have := congrArg (List.map (·.1)) (h ER mT 2 0 scanR_ok opsR rfl rfl)
  rw [R_full, R_projected] at this
  simp at this

open LexOpsProof.Witness in
/-- Non-vacuity of `C05_partial` / `C05_scan_state_sequential`: a scanner with both
contracts and a history with lookahead, a clone and span queries whose projection
is shorter and which delivers two tokens (the filtered `ws` is skipped). -/
example : ScanOK ET mT 3 ∧ ScanFinal ET mT ∧ LexOps.metricsFree opsN = true ∧
    LexOps.sublexFree opsN = true ∧ (LexOps.project opsN).length < opsN.length ∧
    LexOps.delivered opsN (LexOps.exec ET [Lexer.new () mT 3] opsN) =
      [(.tok (some 1), some ⟨⟨0, 0, 0⟩, ⟨1, 0, 1⟩⟩), (.tok (some 2), some ⟨⟨2, 0, 2⟩, ⟨3, 0, 3⟩⟩)] :=
  ⟨scanT_ok, scanT_final, rfl, rfl, by decide, N_full⟩

/-! ### sub-lex marks -/

/-- Sub-lex marks, lookahead and cloning are unobservable in every metrics-free
history in which, outside clones, no filter change follows a sub-lex mark before an
advance has consumed a token (`sublexOK`, evaluated on the history's own run). -/
theorem C05_sublex {σ τ : Type} (E : LexEnv σ τ) (m : Metrics) (len : Nat) (s0 : σ)
    (ok : ScanOK E m len) (fin : ScanFinal E m)
    (ops : List (LexOps.Op τ)) (hm : LexOps.metricsFree ops = true)
    (hs : LexOpsProof.sublexOK ops (LexOps.exec E [Lexer.new s0 m len] ops) = true) :
    LexOps.delivered ops (LexOps.exec E [Lexer.new s0 m len] ops)
      = LexOps.delivered (LexOps.project ops) (LexOps.exec E [Lexer.new s0 m len] (LexOps.project ops)) :=
  LexOpsProof.sublex_ ok fin s0 ops hm hs

/-- The scanner-state clause for these histories: every delivered token is a token
of the raw stream, with exactly that raw token's span. -/
theorem C05_sublex_scan_state_sequential {σ τ : Type} (E : LexEnv σ τ) (m : Metrics) (len : Nat) (s0 : σ)
    (ok : ScanOK E m len) (fin : ScanFinal E m)
    (ops : List (LexOps.Op τ)) (hm : LexOps.metricsFree ops = true)
    (hs : LexOpsProof.sublexOK ops (LexOps.exec E [Lexer.new s0 m len] ops) = true)
    (t : τ) (sp : Span)
    (h : (LexOps.Out.tok (some t), some sp) ∈ LexOps.delivered ops (LexOps.exec E [Lexer.new s0 m len] ops)) :
    ∃ r ∈ Spec.rawFrom E.scan m (len + 1) s0 Pos.zero, r.tok = t ∧ sp = ⟨r.start, r.stop⟩ :=
  LexOpsProof.sublex_sequential ok fin s0 ops hm hs _ h t sp rfl

/-- The same under a condition on the calls alone: outside clones, no filter change
after the first sub-lex mark. -/
theorem C05_sublex_syntactic {σ τ : Type} (E : LexEnv σ τ) (m : Metrics) (len : Nat) (s0 : σ)
    (ok : ScanOK E m len) (fin : ScanFinal E m)
    (ops : List (LexOps.Op τ)) (hm : LexOps.metricsFree ops = true)
    (hs : LexOpsProof.noFilterAfterSublex ops = true) :
    LexOps.delivered ops (LexOps.exec E [Lexer.new s0 m len] ops)
      = LexOps.delivered (LexOps.project ops) (LexOps.exec E [Lexer.new s0 m len] (LexOps.project ops)) :=
  LexOpsProof.sublex_ ok fin s0 ops hm (LexOpsProof.sublexOK_of_noFilterAfterSublex ops _ hs)

/-- `C05_partial` is the special case without sub-lex marks. -/
theorem C05_partial_is_an_instance {σ τ : Type} (ops : List (LexOps.Op τ)) (hs : LexOps.sublexFree ops = true)
    (obs : List (LexOps.Out τ × Lexer σ τ)) :
    LexOpsProof.noFilterAfterSublex ops = true ∧ LexOpsProof.sublexOK ops obs = true :=
  ⟨LexOpsProof.noFilterAfterSublex_of_sublexFree ops hs,
   LexOpsProof.sublexOK_of_noFilterAfterSublex ops obs (LexOpsProof.noFilterAfterSublex_of_sublexFree ops hs)⟩

open LexOpsProof.Witness in
/-- The signature of F19 as the test oracle computes it is too narrow: its complement
does not imply the statement (`advance_up_to` answering `true` consumes nothing). -/
theorem C05_F19_signature_too_narrow :
    ¬ (∀ {σ τ : Type} (E : LexEnv σ τ) (m : Metrics) (len : Nat) (s0 : σ), ScanOK E m len → ScanFinal E m →
      ∀ ops : List (LexOps.Op τ), LexOps.metricsFree ops = true →
        LexOpsProof.oracleSig ops (LexOps.exec E [Lexer.new s0 m len] ops) = false →
        LexOps.delivered ops (LexOps.exec E [Lexer.new s0 m len] ops)
          = LexOps.delivered (LexOps.project ops)
              (LexOps.exec E [Lexer.new s0 m len] (LexOps.project ops))) := by
  intro h
  have := congrArg (List.map (·.1)) (h ET mT 3 () scanT_ok scanT_final opsU rfl U_sig.1)
  rw [U_full, U_projected] at this
  simp at this

open LexOpsProof.Witness in
/-- Non-vacuity of `C05_sublex` / `C05_sublex_syntactic`: `with_filter; next; peek;
start_sublex; next` on `a ws b` satisfies both conditions, contains a sub-lex mark
outside clones (so `C05_partial` does not apply), has a shorter projection and
delivers `a` and `b`. -/
example : ScanOK ET mT 3 ∧ ScanFinal ET mT ∧ LexOps.metricsFree opsS = true ∧
    LexOps.sublexFree opsS = false ∧ LexOpsProof.noFilterAfterSublex opsS = true ∧
    LexOpsProof.sublexOK opsS (LexOps.exec ET [Lexer.new () mT 3] opsS) = true ∧
    (LexOps.project opsS).length < opsS.length ∧
    LexOps.delivered opsS (LexOps.exec ET [Lexer.new () mT 3] opsS) =
      [(.tok (some 1), some ⟨⟨0, 0, 0⟩, ⟨1, 0, 1⟩⟩), (.tok (some 2), some ⟨⟨2, 0, 2⟩, ⟨3, 0, 3⟩⟩)] :=
  ⟨scanT_ok, scanT_final, rfl, rfl, rfl, S_ok, by decide, S_full⟩

open LexOpsProof.Witness in
/-- Non-vacuity of the semantic condition beyond the syntactic one: `with_filter;
start_sublex; next; set_filter(None); next; next` changes the filter after the mark,
once a token has been consumed; the change takes effect (`ws` is delivered). -/
example : LexOps.metricsFree opsS2 = true ∧
    LexOpsProof.sublexOK opsS2 (LexOps.exec ET [Lexer.new () mT 3] opsS2) = true ∧
    LexOpsProof.noFilterAfterSublex opsS2 = false ∧
    (LexOps.delivered opsS2 (LexOps.exec ET [Lexer.new () mT 3] opsS2)).map (·.1) =
      [.tok (some 1), .tok (some 0), .tok (some 2)] :=
  ⟨rfl, S2_ok.1, S2_ok.2, S2_full⟩

end Tephra.Props
