/-
  C12 — recovery resumes exactly at the requested token, every time.

  English.  `recover*` / `recover_default` (tephra-combinator/src/control.rs; Lean
  model `recoverDefault`, `.recover` case of `run`, TephraModel/Run.lean) run the
  wrapped parser; if it fails and the context has a sink, the error is reported once
  and `Lexer::advance_to_recover` (model `advanceToRecover` / `recoverLoop`) walks
  the lexer the combinator was given — peek, ask the recovery closure, next — until
  the closure says "here".  The closures are `recover_before(tok)`,
  `recover_before_any`, `recover_after(tok)`, `recover_after_any`
  (tephra-error/src/recover.rs; model `askRecover`) and the `sep || abort` closure
  `list` builds.  The `after` closures carry a flag (`found`); the model keeps it
  in `World.found` under the closure's identity `id`; a lexer carries only the
  identity (`Lexer.recover : Option Nat`), so all clones of a lexer and all
  invocations of a parser built from one closure share one flag — clone
  independence is structural in the model, invocation independence is what is
  proved here.

  Vocabulary.  `ScanOK` is the scanner contract, `LexIter.Inv` the lexer invariant
  (every lexer reachable from `Lexer::new` through the public API satisfies it).
  `AtIdx E m len f K j lx`: `lx` is well formed and its remaining filtered stream
  (raw tokens with spans) is `K.drop j`; take `K = kept lx`, `j = 0` for "the view of
  `lx`".  `Peeked … K i lx'`: `lx'` is well formed, its remaining stream is
  `K.drop i`, and `K[i]` is buffered — its next token is exactly `K[i]`.
  `recPoint r view` is the recovery point of the driver oracle
  (TephraModel/Fam/Oracles.lean): the first token of `view` the closure reacts to
  (`before` kinds), the token after it if there is one (`after` kinds).
  `specOf W id` is the closure registered under `id`; `FlagClear id W` is
  `id ∉ W.found`; `logged W ctx e` is `W` with `ctx.apply e` appended to the sink log.

  * `C12_advance_before` (1): `before` kinds — `advance_to_recover` returns a lexer
    peeked at index `j + p` where `recPoint r (K.drop j) = some p`, i.e. at the first
    token from the lexer's position on whose kind matches (`C12_recovery_point_first`
    spells `first` out); if there is none it fails.  The world is unchanged.  No
    hypothesis on the flags.
  * `C12_advance_after` (2): `after` kinds entered with the flag clear — the lexer is
    peeked at the token after the first matching one, the world is unchanged (flag
    clear again); if the matching token is the last one, or there is none, it fails
    (in the first case the flag stays set — that is F07r).
  * `C12_recover_default` (3): the wrapped parser failed with `e`: without a sink
    `e` comes back and nothing else happens; with a sink exactly one entry
    `ctx.apply e` is appended and the result is the placeholder with the lexer
    peeked at the recovery point *of the lexer the combinator was given* (not of the
    place where the wrapped parser stopped), or the recovery error `⟨[], .recover⟩`
    when there is none.  Hypotheses: `id` is fresh or already stands for `r` before
    the call (`C12_specs_stable`: nothing can unregister it), and for the `after`
    kinds the flag is clear after the wrapped parser ran.  (Success of the wrapped
    parser is transparent: `C08_recover_success_transparent`.)
  * `C12_every_time_*` (4): (a) `before` kinds: (3) from *any* world
    (`C12_every_time_before`).  (b) `after` kinds: every successful return of
    `recover_default` leaves the flag clear (`C12_every_time_flag_invariant`, any
    wrapped parser); for wrapped parsers of the PEG family (`Spec.supported`, which
    cannot touch the world: `C12_supported_world`) one invocation from a *ready* world
    does what (3) says and, if it returns `ok`, leaves the world ready
    (`C12_every_time_invocation`); hence over `Fam.RunF.invoke`, `k` invocations of
    the same node, every invocation reached through invocations that left the world
    ready satisfies (3) for the view of the lexer it was given (`C12_every_time`);
    for the `before` kinds failed invocations leave the world ready too, so every
    invocation is covered (`C12_every_time_before_all`).  `C12_every_time` assumes
    `BodyKeepsInv` (a successful wrapped parser returns a well-formed lexer: part of
    C06, shown here for `one k` in `C12_bodyKeepsInv_one` and for the whole fragment
    `pegWithRep` in `C12_bodyKeepsInv_peg`, see the next item).
  * `C12_every_time_peg` (4b, closed): `C12_every_time` with no assumption on the
    wrapped parser other than membership in the fragment `pegWithRep` (primitives,
    sequencing, alternatives, options, conditionals, implications, bounded
    repetitions): `BodyKeepsInv` is discharged by `C12_bodyKeepsInv_peg` through the
    refinement `rep_sim` of `run` to the reference evaluator (a successful run returns
    a lexer related by `Abs`, which contains the lexer invariant).  The only extra
    hypothesis is on the environment: the filter table is the harness table
    (`PassOK`, as in C06/C07/C14 — the reference evaluator is defined with it).
  * independence of the lexer's stored state (4c): the recover state stored in the
    lexer a parser is *given* is not an input —
    `C12_recover_state_blind`: for every grammar without `stabilize`, `list`, `probe`
    (`recBlind`; `recover*` and `bracket*` included) the run on the same lexer with
    any other stored recover state leaves the same world and fails with the same error
    or succeeds with the same value and the same lexer up to the stored state;
    `C12_blind_fragment_exact`: `stabilize` and `list` do read it (witnesses; `probe`
    prints it), so the fragment cannot be enlarged by them;
    `C12_own_token_whatever_state`: hence `recover*` around such a parser: identical
    result (value, returned lexer, reports, flags) when the wrapped parser fails,
    whatever state an earlier, different recovering combinator left in the lexer;
    `C12_own_token_position`: for *any* wrapped parser that fails, the returned lexer
    is peeked at this closure's recovery point in the view of the given lexer and is in
    this closure's recovering state (`C12_recovered_state`);
    `C12_sequence_two_recoveries`: `both(recover₁, right(mid, recover₂))` — the second
    resumes at its own recovery point computed from where its wrapped parser started,
    no stabilising parser in between, no hypothesis on the stored state.
  * `C12_finding_F07r` (5): without the flag hypothesis (3) is false: text `;`,
    `recover_option(one(a), recover_after(';'))`, sink, two invocations: the first
    returns the recovery error and leaves the flag set, the second returns
    `ok(None)` positioned at the `;` (`C12_finding_F07r_twice`);
    `C12_F07r_characterised`: in general, entered with the flag set the combinator
    "recovers" at the very next token of the lexer it was given.
  * `C12_stabilize_clears` (6): a successful `stabilize` returns a lexer with the
    recover state cleared.

  Lean: `Tephra.RecoverProof.*` (TephraProofs/RecoverProof.lean),
  `Tephra.RecoverFrame.*` (TephraProofs/RecoverFrame.lean), `Tephra.RecoverSeq.*`
  (TephraProofs/RecoverSeq.lean).  Unbounded in the text,
  the scanner, the filter, the wrapped parser (except where `Spec.supported` is
  stated), the world.
-/
import TephraModel.Run
import TephraModel.Fam.Oracles
import TephraProofs.RecoverProof
import TephraProofs.RecoverSeq

namespace Tephra.Props
open Tephra Tephra.Spec Tephra.BracketRefine Tephra.LexIter Tephra.RecoverProof Tephra.RecoverSeq
open Tephra.PegRefine (PassOK pegWithRep)
open Tephra.Fam.Oracles (recPoint)
open Tephra.RecoverFrame (specOf)

/-! ### the closures (interim theorems, kept) -/

theorem C12_before_stateless (W : World) (id k : Nat) (t : Tok)
    (h : (W.specs.find? (·.1 == id)).map (·.2) = some (.before k)) :
    askRecover W id t = (t.kind == k, W) := by
  simp [askRecover, h]

/-- `recover_after`: the token after the recovery token fires and resets the flag. -/
theorem C12_after_fires_and_resets (W : World) (id k : Nat) (t : Tok)
    (h : (W.specs.find? (·.1 == id)).map (·.2) = some (.after k)) (hf : id ∈ W.found) :
    askRecover W id t = (true, { W with found := W.found.erase id }) := by
  simp [askRecover, h, hf]

theorem C12_after_arms (W : World) (id k : Nat) (t : Tok)
    (h : (W.specs.find? (·.1 == id)).map (·.2) = some (.after k)) (hf : ¬ id ∈ W.found)
    (hk : t.kind = k) :
    askRecover W id t = (false, { W with found := id :: W.found }) := by
  simp [askRecover, h, hf, hk]

/-! ### reading `recPoint` -/

/-- `recPoint` for the `before` kinds is the first token the closure reacts to … -/
theorem C12_recPoint_before {r : Rec} (h : isBefore r = true) (view : List (RawTok Tok)) :
    recPoint r view = firstHit r view := recPoint_before h view

/-- … for the `after` kinds the token after it, if there is one. -/
theorem C12_recPoint_after {r : Rec} (h : isAfter r = true) (view : List (RawTok Tok)) :
    recPoint r view = (firstHit r view).bind fun i => if i + 1 < view.length then some (i + 1) else none :=
  recPoint_after h view

/-- "first": `firstHit r (K.drop j) = some d` iff `K[j+d]` matches and no token of
`K` with index in `[j, j+d)` does. -/
theorem C12_recovery_point_first {r : Rec} {K : List (RawTok Tok)} {j d : Nat} :
    firstHit r (K.drop j) = some d ↔
      ∃ x, K[j + d]? = some x ∧ hit r x.tok.kind = true ∧
        ∀ i x', j ≤ i → i < j + d → K[i]? = some x' → hit r x'.tok.kind = false :=
  firstHit_some_iff

theorem C12_recovery_point_none {r : Rec} {K : List (RawTok Tok)} {j : Nat} :
    firstHit r (K.drop j) = none ↔ ∀ i x, j ≤ i → K[i]? = some x → hit r x.tok.kind = false :=
  firstHit_none_iff

/-! ### 1, 2: `advance_to_recover` -/

theorem C12_advance_before {m : Metrics} {len : Nat} {f : Option Nat} (R : RunEnv) (ok : ScanOK R.E m len)
    {K : List (RawTok Tok)} {j : Nat} {lx : Lx} {W : World} {id : Nat} {r : Rec}
    (hrec : lx.recover = some id) (hs : specOf W id = some r) (hb : isBefore r = true)
    (hat : AtIdx R.E m len f K j lx) :
    match recPoint r (K.drop j) with
    | some d => ∃ lx', advanceToRecover R lx W = (some lx', W) ∧ Peeked R.E m len f K (j + d) lx'
    | none => advanceToRecover R lx W = (none, W) :=
  advance_before R ok hrec hs hb hat

theorem C12_advance_after {m : Metrics} {len : Nat} {f : Option Nat} (R : RunEnv) (ok : ScanOK R.E m len)
    {K : List (RawTok Tok)} {j : Nat} {lx : Lx} {W : World} {id : Nat} {r : Rec}
    (hrec : lx.recover = some id) (hs : specOf W id = some r) (ha : isAfter r = true)
    (hf : FlagClear id W) (hat : AtIdx R.E m len f K j lx) :
    match recPoint r (K.drop j) with
    | some p => ∃ lx', advanceToRecover R lx W = (some lx', W) ∧ Peeked R.E m len f K (j + p) lx'
    | none => advanceToRecover R lx W =
        (none, if (firstHit r (K.drop j)).isSome then { W with found := id :: W.found } else W) :=
  advance_after R ok hrec hs ha hf hat

/-! ### 3: `recover_default` -/

/-- nothing can unregister or re-point a registered closure -/
theorem C12_specs_stable (R : RunEnv) (n : Nat) (g : G) (lx : Lx) (ctx : Ctx) (W : World) (i : Nat) (r : Rec)
    (h : specOf W i = some r) : specOf (run R n g lx ctx W).2 i = some r :=
  RecoverFrame.run_specs_stable R n g lx ctx W i r h

theorem C12_recover_default {m : Metrics} {len : Nat} {f : Option Nat} (R : RunEnv) (ok : ScanOK R.E m len)
    {K : List (RawTok Tok)} {j : Nat} {lx : Lx} (hat : AtIdx R.E m len f K j lx)
    (n : Nat) (dv : Val) (id : Nat) (r : Rec) (body : G) (ctx : Ctx) (W W1 : World) (e : PErr)
    (hW : specOf W id = none ∨ specOf W id = some r)
    (hbody : run R n body lx ctx (W.register id r) = (.err e, W1))
    (hflag : isBefore r = true ∨ FlagClear id W1) :
    (ctx.sink = false → recoverDefault R (n + 1) dv id r body lx ctx W = (.err e, W1)) ∧
    (ctx.sink = true →
      match recPoint r (K.drop j) with
      | some p => ∃ lx', recoverDefault R (n + 1) dv id r body lx ctx W = (.ok dv lx', logged W1 ctx e) ∧
          Peeked R.E m len f K (j + p) lx'
      | none => ∃ W', recoverDefault R (n + 1) dv id r body lx ctx W = (.err ⟨[], .recover⟩, W') ∧
          (W' = logged W1 ctx e ∨
            (isAfter r = true ∧ W' = { logged W1 ctx e with found := id :: W1.found }))) :=
  ⟨recoverDefault_fail_nosink R n dv id r body lx ctx W W1 e hbody,
   recoverDefault_fail_sink' R ok hat n dv id r body ctx W W1 e hW hbody hflag⟩

/-! ### 4: every time -/

/-- (a) `before` kinds: the statement of (3) from any world — no hypothesis on `found`. -/
theorem C12_every_time_before {m : Metrics} {len : Nat} {f : Option Nat} (R : RunEnv) (ok : ScanOK R.E m len)
    {K : List (RawTok Tok)} {j : Nat} {lx : Lx} (hat : AtIdx R.E m len f K j lx)
    (n : Nat) (dv : Val) (id : Nat) (r : Rec) (body : G) (ctx : Ctx) (W W1 : World) (e : PErr)
    (hb : isBefore r = true)
    (hW : specOf W id = none ∨ specOf W id = some r)
    (hbody : run R n body lx ctx (W.register id r) = (.err e, W1)) (hsink : ctx.sink = true) :
    match recPoint r (K.drop j) with
    | some p => ∃ lx', recoverDefault R (n + 1) dv id r body lx ctx W = (.ok dv lx', logged W1 ctx e) ∧
        Peeked R.E m len f K (j + p) lx'
    | none => recoverDefault R (n + 1) dv id r body lx ctx W = (.err ⟨[], .recover⟩, logged W1 ctx e) := by
  have := recoverDefault_fail_sink' R ok hat n dv id r body ctx W W1 e hW hbody (Or.inl hb) hsink
  cases hp : recPoint r (K.drop j) with
  | some p => rw [hp] at this; exact this
  | none =>
    rw [hp] at this
    obtain ⟨W', h1, h2⟩ := this
    rcases h2 with rfl | ⟨ha, _⟩
    · exact h1
    · cases r <;> simp_all [isBefore, isAfter]

/-- (b) invariant, any wrapped parser: a successful return leaves the flag clear. -/
theorem C12_every_time_flag_invariant {m : Metrics} {len : Nat} {f : Option Nat} (R : RunEnv)
    (ok : ScanOK R.E m len) {K : List (RawTok Tok)} {j : Nat} {lx : Lx} (hat : AtIdx R.E m len f K j lx)
    (n : Nat) (dv : Val) (id : Nat) (r : Rec) (body : G) (ctx : Ctx) (W W1 : World) (res : RRes)
    (hbody : run R n body lx ctx (W.register id r) = (res, W1))
    (hs : specOf W1 id = some r) (hf : FlagClear id W1)
    (v : Val) (lx' : Lx) (W' : World)
    (h : recoverDefault R (n + 1) dv id r body lx ctx W = (.ok v lx', W')) : FlagClear id W' :=
  recoverDefault_ok_flagClear R ok hat n dv id r body ctx W W1 res hbody hs hf v lx' W' h

/-- a grammar of the PEG family does not touch the world -/
theorem C12_supported_world (R : RunEnv) (n : Nat) (g : G) (lx : Lx) (ctx : Ctx) (W : World)
    (h : Spec.supported g = true) : (run R n g lx ctx W).2 = W :=
  RecoverFrame.run_supported_world R n g lx ctx W h

/-- (b) one invocation from a ready world. -/
theorem C12_every_time_invocation {m : Metrics} {len : Nat} {f : Option Nat} (R : RunEnv) (ok : ScanOK R.E m len)
    {lx : Lx} (inv : Inv R.E m len f lx) (n : Nat) (dv : Val) (id : Nat) (r : Rec) (body : G) (ctx : Ctx)
    (W : World) (hsup : Spec.supported body = true) (hready : Ready id r W) :
    Outcome R m len f ctx dv id r (kept R.E m len lx) (W.register id r)
      (run R n body lx ctx (W.register id r)).1
      (recoverDefault R (n + 1) dv id r body lx ctx W).1 (recoverDefault R (n + 1) dv id r body lx ctx W).2 ∧
    (∀ v lx', (recoverDefault R (n + 1) dv id r body lx ctx W).1 = .ok v lx' →
      Ready id r (recoverDefault R (n + 1) dv id r body lx ctx W).2) :=
  recoverDefault_ready R ok inv n dv id r body ctx W hsup hready

/-- (b) `k` invocations of the same `recover` node, as the driver performs them. -/
theorem C12_every_time {m : Metrics} {len : Nat} {f : Option Nat} (R : RunEnv) (ok : ScanOK R.E m len)
    (ctx : Ctx) (v id : Nat) (a : G) (r : Rec)
    (hsup : Spec.supported a = true) (hkeep : BodyKeepsInv R m len f a)
    (k : Nat) (lx : Lx) (W : World) (inv : Inv R.E m len f lx) (hready : Ready id r W) :
    Explained (Ready id r) (Step R m len f ctx v id a r (Fam.RunF.fuel - 2)) lx W
      (Fam.RunF.invoke R (.recover v id a r) ctx k lx W).1 :=
  invoke_explained R ok ctx v id a r hsup hkeep k lx W inv hready

/-- (a) over `invoke`: for the `before` kinds every outcome leaves the world ready,
so the `fail` steps of `Explained` always continue. -/
theorem C12_every_time_before_all {m : Metrics} {len : Nat} {f : Option Nat} {R : RunEnv} {ctx : Ctx} {dv : Val}
    {id : Nat} {r : Rec} {K : List (RawTok Tok)} {W : World} {br res : RRes} {W' : World}
    (hb : isBefore r = true) (hready : Ready id r W)
    (h : Outcome R m len f ctx dv id r K (W.register id r) br res W') : Ready id r W' :=
  ready_after_fail_before hb hready h

theorem C12_bodyKeepsInv_one {m : Metrics} {len : Nat} {f : Option Nat} (R : RunEnv) (ok : ScanOK R.E m len)
    (k : Nat) : BodyKeepsInv R m len f (.one k) :=
  bodyKeepsInv_one R ok k

/-! ### 4b: every time, for every wrapped parser of the PEG fragment -/

/-- A successful run of a parser of the fragment `pegWithRep` returns a well-formed
lexer on the same text with the same filter. -/
theorem C12_bodyKeepsInv_peg {m : Metrics} {len : Nat} {f : Option Nat} (R : RunEnv) (ok : ScanOK R.E m len)
    (hp : PassOK R.E) (a : G) (ha : pegWithRep a = true) : BodyKeepsInv R m len f a :=
  bodyKeepsInv_peg R ok hp a ha

/-- `k` invocations of the same `recover` node whose wrapped parser is *any* parser
of the fragment `pegWithRep`: every invocation reached through invocations that left
the world ready starts from a well-formed lexer in a ready world and does what (3)
says for the view of the lexer it was given.  No hypothesis on the wrapped parser
other than membership in the fragment. -/
theorem C12_every_time_peg {m : Metrics} {len : Nat} {f : Option Nat} (R : RunEnv) (ok : ScanOK R.E m len)
    (hp : PassOK R.E) (ctx : Ctx) (v id : Nat) (a : G) (r : Rec) (ha : pegWithRep a = true)
    (k : Nat) (lx : Lx) (W : World) (inv : Inv R.E m len f lx) (hready : Ready id r W) :
    Explained (Ready id r) (Step R m len f ctx v id a r (Fam.RunF.fuel - 2)) lx W
      (Fam.RunF.invoke R (.recover v id a r) ctx k lx W).1 :=
  invoke_explained_peg R ok hp ctx v id a r ha k lx W inv hready

/-! ### 4c: independently of the state stored in the lexer -/

/-- The recover state stored in the lexer a parser is given is not an input of any
parser built without `stabilize`, `list`, `probe`: with any other stored state `rs`
the world is the same, a failure is the same failure, a success has the same value
and the same lexer up to the stored state (`PRq`, `Rq`). -/
theorem C12_recover_state_blind (R : RunEnv) (n : Nat) (g : G) (lx : Lx) (rs : Option Nat) (ctx : Ctx) (W : World)
    (hg : recBlind g = true) : PRq (run R n g lx ctx W) (run R n g (lx.setRecoverState rs) ctx W) :=
  run_blind R n g lx rs ctx W hg

/-- reading `PRq`: what the relation says, case by case -/
theorem C12_PRq_reading {x y : RRes × World} (h : PRq x y) :
    x.2 = y.2 ∧
    (∀ e, x.1 = .err e → y.1 = .err e) ∧
    (∀ v l, x.1 = .ok v l → ∃ l', y.1 = .ok v l' ∧ l.setRecoverState none = l'.setRecoverState none) ∧
    (x.1 = .panic → y.1 = .panic) ∧ (x.1 = .fuel → y.1 = .fuel) := by
  refine h.elim (fun v l r W hx hy => ?_) (fun e W hx hy => ?_) (fun W hx hy => ?_) (fun W hx hy => ?_) <;>
    subst hx <;> subst hy <;> simp

/-- The fragment is exact with respect to `stabilize` and `list`: both read the
stored state of the lexer they are given (text `; a`, closure `recover_before(a)`
registered: error without the stored state, success with it). -/
theorem C12_blind_fragment_exact :
    ¬ PRq (run Reads.R 6 (.stabilize (.one 0)) Reads.lx0 Reads.ctx1 Reads.W7)
      (run Reads.R 6 (.stabilize (.one 0)) (Reads.lx0.setRecoverState (some 7)) Reads.ctx1 Reads.W7) ∧
    ¬ PRq (run Reads.R 9 (.list 1 9 0 none (.one 0) 3 [8]) Reads.lx0 Reads.ctx0 Reads.W7)
      (run Reads.R 9 (.list 1 9 0 none (.one 0) 3 [8]) (Reads.lx0.setRecoverState (some 7)) Reads.ctx0 Reads.W7) :=
  ⟨Reads.not_blind_stabilize, Reads.not_blind_list⟩

/-- **Own token, whatever state.**  `recover*(a, closure)` with `a` built without
`stabilize`/`list`/`probe`, started on `lx` and on `lx` with any other stored recover
state `rs` (e.g. the one an earlier, different recovering combinator left there):
related results in general, and *identical* results — reported error, placeholder,
returned lexer, flags — whenever the wrapped parser fails. -/
theorem C12_own_token_whatever_state (R : RunEnv) (n v id : Nat) (a : G) (r : Rec) (lx : Lx) (rs : Option Nat)
    (ctx : Ctx) (W : World) (ha : recBlind a = true) :
    PRq (run R (n + 2) (.recover v id a r) lx ctx W) (run R (n + 2) (.recover v id a r) (lx.setRecoverState rs) ctx W) ∧
    ((∀ v' l, (run R n (bodyOf v a) lx ctx (W.register id r)).1 ≠ .ok v' l) →
      run R (n + 2) (.recover v id a r) (lx.setRecoverState rs) ctx W = run R (n + 2) (.recover v id a r) lx ctx W) :=
  run_recover_own_token R n v id a r lx rs ctx W ha

/-- the same for `recover_default` itself -/
theorem C12_own_token_recover_default (R : RunEnv) (n : Nat) (dv : Val) (id : Nat) (r : Rec) (body : G) (lx : Lx)
    (rs : Option Nat) (ctx : Ctx) (W : World) (hb : recBlind body = true) :
    PRq (recoverDefault R (n + 1) dv id r body lx ctx W)
      (recoverDefault R (n + 1) dv id r body (lx.setRecoverState rs) ctx W) ∧
    ((∀ v l, (run R n body lx ctx (W.register id r)).1 ≠ .ok v l) →
      recoverDefault R (n + 1) dv id r body (lx.setRecoverState rs) ctx W =
        recoverDefault R (n + 1) dv id r body lx ctx W) :=
  recoverDefault_own_token R n dv id r body lx rs ctx W hb

/-- the combinator itself (any wrapped parser): if the wrapped parser does the same
failing thing on both lexers, so does the combinator -/
theorem C12_own_token_of_body (R : RunEnv) (n : Nat) (dv : Val) (id : Nat) (r : Rec) (body : G) (lx : Lx)
    (rs : Option Nat) (ctx : Ctx) (W : World)
    (hsame : run R n body (lx.setRecoverState rs) ctx (W.register id r) = run R n body lx ctx (W.register id r))
    (hfail : ∀ v l, (run R n body lx ctx (W.register id r)).1 ≠ .ok v l) :
    recoverDefault R (n + 1) dv id r body (lx.setRecoverState rs) ctx W =
      recoverDefault R (n + 1) dv id r body lx ctx W :=
  recoverDefault_own_token_of_body R n dv id r body lx rs ctx W hsame hfail

/-- **Position form** (any wrapped parser): started on `lx` carrying any stored
state `rs`, if the wrapped parser fails and a sink is installed, the lexer returned
is peeked at *this* closure's recovery point in the view of `lx` (`K`, `j` do not
depend on `rs`) and carries *this* closure's identity. -/
theorem C12_own_token_position {m : Metrics} {len : Nat} {f : Option Nat} (R : RunEnv) (ok : ScanOK R.E m len)
    {K : List (RawTok Tok)} {j : Nat} {lx : Lx} (hat : AtIdx R.E m len f K j lx) (rs : Option Nat)
    (n : Nat) (dv : Val) (id : Nat) (r : Rec) (body : G) (ctx : Ctx) (W W1 : World) (e : PErr)
    (hW : specOf W id = none ∨ specOf W id = some r)
    (hbody : run R n body (lx.setRecoverState rs) ctx (W.register id r) = (.err e, W1))
    (hflag : isBefore r = true ∨ FlagClear id W1) (hsink : ctx.sink = true) :
    match recPoint r (K.drop j) with
    | some p => ∃ lx', recoverDefault R (n + 1) dv id r body (lx.setRecoverState rs) ctx W =
          (.ok dv lx', logged W1 ctx e) ∧
        Peeked R.E m len f K (j + p) lx' ∧ lx'.recover = some id
    | none => ∃ W', recoverDefault R (n + 1) dv id r body (lx.setRecoverState rs) ctx W = (.err ⟨[], .recover⟩, W') ∧
        (W' = logged W1 ctx e ∨
          (isAfter r = true ∧ W' = { logged W1 ctx e with found := id :: W1.found })) :=
  recoverDefault_fail_sink_any_state R ok hat rs n dv id r body ctx W W1 e hW hbody hflag hsink

/-- after a recovery the returned lexer is in the recovering state of this closure -/
theorem C12_recovered_state (R : RunEnv) (n : Nat) (dv : Val) (id : Nat) (r : Rec) (body : G) (lx : Lx)
    (ctx : Ctx) (W W1 : World) (e : PErr) (hbody : run R n body lx ctx (W.register id r) = (.err e, W1))
    (v : Val) (lx' : Lx) (W' : World) (h : recoverDefault R (n + 1) dv id r body lx ctx W = (.ok v lx', W')) :
    lx'.recover = some id :=
  recoverDefault_recovered_state R n dv id r body lx ctx W W1 e hbody v lx' W' h

/-- **Two recovering combinators in sequence**, `both(recover₁, right(mid, recover₂))`,
sink installed.  The first returned `lx1` (after a recovery it is in the recovering
state of closure `i1`), `mid` went from `lx1` to `lx2` (no stabilising parser, the
state is whatever it is: no hypothesis on `lx2.recover`), the second wrapped parser
fails from `lx2`.  Then the sequence reports that error once and returns the lexer
peeked at the *second* closure's recovery point computed from where *its* wrapped
parser started (`K`, `j2` describe `lx2`), in the second closure's recovering state;
if there is no such point it fails with the recovery error. -/
theorem C12_sequence_two_recoveries {m : Metrics} {len : Nat} {f : Option Nat} (R : RunEnv) (ok : ScanOK R.E m len)
    {K : List (RawTok Tok)} {j2 : Nat} {lx lx1 lx2 : Lx} (n v1 i1 : Nat) (a1 : G) (r1 : Rec) (mid : G)
    (v2 i2 : Nat) (a2 : G) (r2 : Rec) (ctx : Ctx) (W W1 W2 W3 : World) (d1 vm : Val) (e2 : PErr)
    (hsink : ctx.sink = true)
    (h1 : run R (n + 4) (.recover v1 i1 a1 r1) lx ctx W = (.ok d1 lx1, W1))
    (hmid : run R (n + 2) mid lx1 ctx W1 = (.ok vm lx2, W2))
    (hat2 : AtIdx R.E m len f K j2 lx2)
    (hW : specOf W2 i2 = none ∨ specOf W2 i2 = some r2)
    (hbody2 : run R n (bodyOf v2 a2) lx2 ctx (W2.register i2 r2) = (.err e2, W3))
    (hflag : isBefore r2 = true ∨ FlagClear i2 W3) :
    match recPoint r2 (K.drop j2) with
    | some p => ∃ lx',
        run R (n + 5) (.both (.recover v1 i1 a1 r1) (.right mid (.recover v2 i2 a2 r2))) lx ctx W =
          (.ok (.pair d1 (dvOf v2)) lx', logged W3 ctx e2) ∧
        Peeked R.E m len f K (j2 + p) lx' ∧ lx'.recover = some i2
    | none => ∃ W',
        run R (n + 5) (.both (.recover v1 i1 a1 r1) (.right mid (.recover v2 i2 a2 r2))) lx ctx W =
          (.err ⟨[], .recover⟩, W') ∧
        (W' = logged W3 ctx e2 ∨ (isAfter r2 = true ∧ W' = { logged W3 ctx e2 with found := i2 :: W3.found })) :=
  sequence_two_recoveries R ok n v1 i1 a1 r1 mid v2 i2 a2 r2 ctx W W1 W2 W3 d1 vm e2 hsink h1 hmid hat2 hW hbody2 hflag

/-! ### 5: finding F07r -/

/-- The statement of (3) without the flag hypothesis is false. -/
theorem C12_finding_F07r : ¬ recoverDefault_noflag_statement := finding_F07r

/-- The witness, as the driver runs it: two invocations on the text `;`. -/
theorem C12_finding_F07r_twice :
    Fam.RunF.invoke F07r.R F07r.g F07r.ctx0 2 F07r.lx0 World.init
      = ([.err ⟨[], .recover⟩, .ok .none F07r.lxr], F07r.W2) ∧
    recPoint (.after 5) (kept F07r.R.E F07r.m0 1 F07r.lx0) = none ∧
    F07r.lxr.peekTokenSpan = some ⟨⟨0, 0, 0⟩, ⟨1, 0, 1⟩⟩ :=
  ⟨F07r.twice, F07r.noPoint, by simp [F07r.lxr, Lexer.peekTokenSpan, Span.enclosing]⟩

/-- In general: entered with the flag set, the combinator "recovers" at the very
next token of the lexer it was given and clears the flag. -/
theorem C12_F07r_characterised {m : Metrics} {len : Nat} {f : Option Nat} (R : RunEnv) (ok : ScanOK R.E m len)
    {K : List (RawTok Tok)} {j : Nat} {lx : Lx} (hat : AtIdx R.E m len f K j lx)
    (n : Nat) (dv : Val) (id : Nat) (r : Rec) (body : G) (ctx : Ctx) (W W1 : World) (e : PErr)
    (hbody : run R n body lx ctx (W.register id r) = (.err e, W1))
    (hs : specOf W1 id = some r) (ha : isAfter r = true) (hflag : id ∈ W1.found) (hsink : ctx.sink = true)
    (hj : j < K.length) :
    ∃ lx', recoverDefault R (n + 1) dv id r body lx ctx W =
        (.ok dv lx', { logged W1 ctx e with found := W1.found.erase id }) ∧
      Peeked R.E m len f K j lx' :=
  recoverDefault_fail_sink_armed R ok hat n dv id r body ctx W W1 e hbody hs ha hflag hsink hj

/-! ### 6: `stabilize` -/

theorem C12_stabilize_clears (R : RunEnv) (n : Nat) (a : G) (lx : Lx) (ctx : Ctx) (W : World) (v : Val)
    (lx' : Lx) (W' : World) (h : run R n (.stabilize a) lx ctx W = (.ok v lx', W')) : lx'.recover = none :=
  stabilize_clears R n a lx ctx W v lx' W' h

/-! ### non-vacuity -/
section NonVacuity
open Tephra.BracketRefine.Witness

/-- text `a ; b` (kinds 0 5 1), table scanner -/
def nvR : RunEnv := ⟨tabEnv [0, 5, 1], []⟩
def nvLx : Lx := Lexer.new 0 F07r.m0 3

theorem nv_view : kept nvR.E F07r.m0 3 nvLx =
    [⟨⟨0, 0⟩, ⟨0,0,0⟩, ⟨1,0,1⟩⟩, ⟨⟨5, 0⟩, ⟨1,0,1⟩, ⟨2,0,2⟩⟩, ⟨⟨1, 0⟩, ⟨2,0,2⟩, ⟨3,0,3⟩⟩] := by
  simp [kept, LexIter.rawAt, Spec.rawFrom, nvR, tabEnv, scanTab, nvLx, Lexer.new, Pos.zero, LexIter.keepOf]

theorem nv_ok : ScanOK nvR.E F07r.m0 3 := tab_ok [0, 5, 1] F07r.m0

theorem nv_at : AtIdx nvR.E F07r.m0 3 none (kept nvR.E F07r.m0 3 nvLx) 0 (nvLx.setRecoverState (some 7)) :=
  setRecoverState_at (some 7) ⟨inv_fresh 0 none, rfl⟩

/-- `recover_before(';')` on `a ; b`: hypotheses satisfiable, conclusion: peeked at index 1. -/
example (W : World) (hs : specOf W 7 = some (.before 5)) :
    ∃ lx', advanceToRecover nvR (nvLx.setRecoverState (some 7)) W = (some lx', W) ∧
      Peeked nvR.E F07r.m0 3 none (kept nvR.E F07r.m0 3 nvLx) 1 lx' := by
  have := C12_advance_before nvR nv_ok (W := W) rfl hs rfl nv_at
  have hp : recPoint (.before 5) (List.drop 0 (kept nvR.E F07r.m0 3 nvLx)) = some 1 := by
    rw [List.drop_zero, nv_view]; simp [recPoint, List.findIdx?_cons]
  rw [hp] at this
  simpa using this

/-- `recover_after(';')` on `a ; b`, flag clear: peeked at index 2, world unchanged. -/
example (W : World) (hs : specOf W 7 = some (.after 5)) (hf : FlagClear 7 W) :
    ∃ lx', advanceToRecover nvR (nvLx.setRecoverState (some 7)) W = (some lx', W) ∧
      Peeked nvR.E F07r.m0 3 none (kept nvR.E F07r.m0 3 nvLx) 2 lx' := by
  have := C12_advance_after nvR nv_ok (W := W) rfl hs rfl hf nv_at
  have hp : recPoint (.after 5) (List.drop 0 (kept nvR.E F07r.m0 3 nvLx)) = some 2 := by
    rw [List.drop_zero, nv_view]; simp [recPoint, List.findIdx?_cons]
  rw [hp] at this
  simpa using this

/-- a ready world exists (the initial one), for every closure -/
example (id : Nat) (r : Rec) : Ready id r World.init :=
  ⟨Or.inl rfl, Or.inr (by simp [FlagClear, World.init])⟩

/-- (3) is not vacuous: in the F07r setting the *first* invocation satisfies all its
hypotheses (flag clear) and its `none` branch is what happens. -/
example : recoverDefault F07r.R 3 .none 7 (.after 5) F07r.body F07r.lx0 F07r.ctx0 World.init
    = (.err ⟨[], .recover⟩, F07r.W1) := F07r.first_rd 0

/-! 4b: a composite wrapped parser.  Text `a b` (kinds 0 12 1, harness filter table),
`recover(both(one(b), maybe(one(a))), recover_before(b))`, sink, two invocations. -/

/-- all hypotheses of `C12_every_time_peg` hold: the theorem applies -/
example : Explained (Ready 7 (.before 1))
    (Step PegRefine.Witness.RW PegRefine.Witness.mW 3 none Comp.ctx1 1 7 Comp.bodyC (.before 1) (Fam.RunF.fuel - 2))
    Comp.lxN World.init (Fam.RunF.invoke PegRefine.Witness.RW Comp.gC Comp.ctx1 2 Comp.lxN World.init).1 :=
  C12_every_time_peg PegRefine.Witness.RW PegRefine.Witness.scanW_ok PegRefine.Witness.passW Comp.ctx1 1 7
    Comp.bodyC (.before 1) Comp.body_in_fragment 2 Comp.lxN World.init (inv_fresh 0 none) ⟨Or.inl rfl, Or.inl rfl⟩

/-- … and this is what happens: the first invocation's wrapped parser fails (one
report, placeholder, lexer peeked at `b` = index 2 of the view), the second one's
succeeds as a composite -/
example : Fam.RunF.invoke PegRefine.Witness.RW Comp.gC Comp.ctx1 2 Comp.lxN World.init =
    ([.ok .dflt Comp.lxB, .ok (.pair (.tok ⟨1, 0⟩) .none) Comp.lxE], Comp.WC) ∧
    Comp.lxB.peekTokenSpan = some ⟨⟨2, 0, 2⟩, ⟨3, 0, 3⟩⟩ :=
  ⟨Comp.twice, by simp [Comp.lxB, Lexer.peekTokenSpan, Span.enclosing]⟩

/-! 4c: text `a ; b , c` (kinds 0 5 1 6 2),
`both(recover(one(x), before(';')), right(one(';'), recover(one(x), before(','))))`. -/

/-- the hypotheses of `C12_sequence_two_recoveries` hold, `lx2` *is* in the recovering
state of the first closure, and the conclusion is: resumed at `,` (index 3 = 2 + 1),
in the state of the second closure — although from index 2 the first closure has no
recovery point at all -/
example : Seq2.lx1.recover = some 7 ∧ Seq2.lx2.recover = some 7 ∧
    recPoint (.before 5) (Seq2.K.drop 2) = none ∧
    ∃ lx', run Seq2.R 6 Seq2.g Seq2.lx0 Seq2.ctx1 World.init =
        (.ok (.pair .dflt .dflt) lx', logged (Seq2.W1.register 8 (.before 6)) Seq2.ctx1 Seq2.e2) ∧
      Peeked Seq2.R.E Seq2.m0 5 none Seq2.K 3 lx' ∧ lx'.recover = some 8 := by
  refine ⟨rfl, rfl, Seq2.point1, ?_⟩
  have := C12_sequence_two_recoveries Seq2.R Seq2.ok0 1 1 7 (.one 9) (.before 5) (.one 5) 1 8 (.one 9) (.before 6)
    Seq2.ctx1 World.init Seq2.W1 Seq2.W1 _ .dflt _ Seq2.e2 rfl (Seq2.h1 1) (Seq2.hmid 1) Seq2.hat2
    (Or.inl Seq2.spec2) (Seq2.hbody2 0) (Or.inl rfl)
  rw [Seq2.point2] at this
  exact this

/-- own token whatever state, instantiated: the second combinator of the sequence
started on `lx2` (state of closure 7) and on `lx2` with the state cleared -/
example : run Seq2.R 4 Seq2.rec2 (Seq2.lx2.setRecoverState none) Seq2.ctx1 Seq2.W1 =
    run Seq2.R 4 Seq2.rec2 Seq2.lx2 Seq2.ctx1 Seq2.W1 :=
  (C12_own_token_whatever_state Seq2.R 2 1 8 (.one 9) (.before 6) Seq2.lx2 none Seq2.ctx1 Seq2.W1 rfl).2
    (by rw [Seq2.hbody2 1]; intro v l h; cases h)

end NonVacuity

end Tephra.Props
