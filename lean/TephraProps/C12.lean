/-
  C12 — recovery resumes exactly at the requested token, every time.
  INTERIM file.  Proved here about the model of the recovery closures
  (recover.rs after the `fix:` commit): `recover_before*` are stateless;
  `recover_after*` clear their flag when they fire, so a completed recovery
  leaves the closure in its initial state.  The theorem for `recover_default`
  over all invocation histories is in progress; the `recover` family + oracle
  carries the statement meanwhile.  Recorded finding F07r (a recovery that runs
  off the end of the text leaves the flag set) is replayed by the check.
-/
import TephraModel.Run

namespace Tephra.Props
open Tephra

theorem C12_before_stateless (W : World) (id k : Nat) (t : Tok)
    (h : (W.specs.find? (·.1 == id)).map (·.2) = some (.before k)) :
    askRecover W id t = (t.kind == k, W) := by
  simp [askRecover, h]

/-- `recover_after`: the token after the recovery token fires and resets the flag. -/
theorem C12_after_fires_and_resets (W : World) (id k : Nat) (t : Tok)
    (h : (W.specs.find? (·.1 == id)).map (·.2) = some (.after k)) (hf : id ∈ W.found) :
    askRecover W id t = (true, { W with found := W.found.erase id }) := by
  simp [askRecover, h, hf]

theorem C12_after_arms (W : World) (id k : Nat) (t : Tok)
    (h : (W.specs.find? (·.1 == id)).map (·.2) = some (.after k)) (hf : ¬ id ∈ W.found)
    (hk : t.kind = k) :
    askRecover W id t = (false, { W with found := id :: W.found }) := by
  simp [askRecover, h, hf, hk]

end Tephra.Props
