/-
  C04 — tokens tile the source; a filter only deletes tokens.
  INTERIM file: proved here — the raw token stream (sequential scanning from a
  position) tiles: it starts at that position, is contiguous and every token is
  non-empty, for every scanner that makes progress.  The refinement theorem
  `C04_iter` (the model of `Lexer` delivers exactly the kept raw tokens with
  their spans and parse spans) is being added; until then that clause is carried
  by the `lexiter` correspondence family + oracle.
-/
import TephraModel.Spec.Raw

namespace Tephra.Props
open Tephra Tephra.Spec

theorem C04_raw_tiles {σ τ : Type} (scan : σ → Metrics → Pos → Option (τ × Pos) × σ) (m : Metrics)
    (hprog : ∀ s p tok adv s', scan s m p = (some (tok, adv), s') → p.byte < adv.byte)
    (fuel : Nat) (s : σ) (p : Pos) :
    tiles p (rawFrom scan m fuel s p) = true := by
  induction fuel generalizing s p with
  | zero => simp [rawFrom, tiles]
  | succ n ih =>
    simp only [rawFrom]
    split
    · simp [tiles]
    · rename_i tok adv s' h
      simp only [tiles, Bool.and_eq_true, beq_self_eq_true, true_and, decide_eq_true_eq]
      exact ⟨hprog _ _ _ _ _ h, ih s' adv⟩

/-- Non-vacuity: a one-character-per-token scanner over a 2-byte text makes progress. -/
example : ∀ (s : Nat) (p : Pos) (tok : Nat) (adv : Pos) (s' : Nat),
    (fun (s : Nat) (_ : Metrics) (p : Pos) =>
      if p.byte < 2 then (some (s, { p with byte := p.byte + 1 }), s + 1) else (none, s)) s ⟨.lf, 4⟩ p
      = (some (tok, adv), s') → p.byte < adv.byte := by
  intro s p tok adv s' h
  by_cases hp : p.byte < 2
  · simp [hp] at h; obtain ⟨⟨_, rfl⟩, _⟩ := h; simp
  · simp [hp] at h

end Tephra.Props
