/-
  C04 — The tokens of a lexer tile the source; a filter only deletes tokens.

  English: fix a scanner, a text length and column metrics such that the scanner
  honours its contract (`ScanOK`: a produced token is non-empty and ends inside
  the text; at or past the end nothing is produced).  Let `raw` be the stream
  obtained by scanning sequentially from position zero until the scanner
  declines (`Spec.rawFrom`; independent of `lexer.rs`).  Then
  * `raw` starts at zero, is contiguous, and every token is non-empty
    (`C04_tiles`), and it does not depend on the fuel once the fuel is at least
    `len + 1` (`C04_fuel`) — the fuel is not a bound on behaviour;
  * exhausting `iter_with_spans()` on a fresh lexer without filter delivers
    exactly `raw`; with a filter (installed by `with_filter`, or by `set_filter`)
    it delivers exactly the kept tokens of `raw`, in order, with the same token
    values (for a stateful scanner: the same state evolution, rejected tokens
    included), the same token spans, and `parse_span` after the k-th delivered
    token = [start of the first delivered token, end of the k-th]
    (`C04_iter`, `C04_iter_setFilter`; `Spec.delivered`);
  * the list `iter_with_spans()` produces is nothing but the results of calling
    `next()` again and again until it answers `None`, each `Some(t)` paired with
    `token_span()` and `parse_span()` read off the lexer right after that call
    (`C04_iter_is_next_loop`) — so everything above is a statement about
    sequences of plain `next` calls.
  * the parse-span clause on arbitrary operation HISTORIES (`LexOps.exec`: any
    sequence of `next`, `next_if`, `peek`, `is_empty_with_filter`, `advance_to`,
    `advance_up_to`, `set_filter`, `with_filter`, `start_sublex`, `into_sublexer`,
    span queries, clones `forkBegin … forkEnd`, and the metrics builders), not only
    on exhausting a fresh lexer: `LexParseSpan.parseSpanTrack` is the driver's
    oracle (`parseSpanOK` in `Fam.Lex.runOps`) restated over model values.  Outside
    clones, tracking starts at the beginning of the history and restarts at every
    sub-lex mark; after each `next` / `next_if` that returns a token,
    `parse_span().start` is (by byte offset) the start of the FIRST token delivered
    by `next` / `next_if` since tracking (re)started and `parse_span().end =
    token_span().end`; an `advance_to` / `advance_up_to` stops the tracking until
    the next sub-lex mark; lookahead, filter changes and span queries do not affect
    it.  `C04_parse_span_history`: under the scanner contract the tracker accepts
    every history without a metrics builder.  `C04_parse_span_history_metrics`:
    with metrics builders anywhere as well, if the contract holds at every metrics
    and re-measuring a byte offset yields a position at that byte offset
    (`LexParseSpan.MeasOK`; true of the driver's `measureText` on well-formed text,
    `LexParseSpan.measureText_byte`).  `ScanFinal` is not needed.

  Lean: `Lexer.iterWithSpans` is the model of `lexer.rs` (TephraModel.Lexer);
  the driver checks on generated cases that the real lexer, the model and
  `Spec.delivered` agree.  Unbounded: any scanner state type, token type,
  scanner function, filter table, metrics, length.
-/
import TephraProofs.LexIter
import TephraProofs.LexIterLoop
import TephraProofs.LexParseSpan

namespace Tephra.Props
open Tephra Tephra.Spec

variable {σ τ : Type}

theorem C04_iter (E : LexEnv σ τ) (m : Metrics) (len : Nat) (s0 : σ) (ok : ScanOK E m len)
    (f : Option Nat) :
    let raw := Spec.rawFrom E.scan m (len + 1) s0 Pos.zero
    let keep : τ → Bool := fun t => match f with | none => true | some k => E.passes k t
    let lx : Lexer σ τ := match f with
      | none => Lexer.new s0 m len
      | some k => (Lexer.new s0 m len).withFilter E (some k)
    (lx.iterWithSpans E).1 = Spec.delivered keep raw := by
  intro raw keep lx
  cases f with
  | none => exact LexIter.iter_new ok s0
  | some k => exact LexIter.iter_withFilter ok s0 (some k)

/-- The same with `set_filter` on a fresh lexer instead of `with_filter` (any `f`,
including `set_filter(None)`). -/
theorem C04_iter_setFilter (E : LexEnv σ τ) (m : Metrics) (len : Nat) (s0 : σ)
    (ok : ScanOK E m len) (f : Option Nat) :
    let raw := Spec.rawFrom E.scan m (len + 1) s0 Pos.zero
    let keep : τ → Bool := fun t => match f with | none => true | some k => E.passes k t
    ((((Lexer.new s0 m len).setFilter E f).2).iterWithSpans E).1 = Spec.delivered keep raw :=
  LexIter.iter_setFilter ok s0 f

/-- `with_filter(None)` as well. -/
theorem C04_iter_withFilter (E : LexEnv σ τ) (m : Metrics) (len : Nat) (s0 : σ)
    (ok : ScanOK E m len) (f : Option Nat) :
    let raw := Spec.rawFrom E.scan m (len + 1) s0 Pos.zero
    let keep : τ → Bool := fun t => match f with | none => true | some k => E.passes k t
    (((Lexer.new s0 m len).withFilter E f).iterWithSpans E).1 = Spec.delivered keep raw :=
  LexIter.iter_withFilter ok s0 f

theorem C04_tiles (E : LexEnv σ τ) (m : Metrics) (len : Nat) (s0 : σ) (ok : ScanOK E m len) :
    Spec.tiles Pos.zero (Spec.rawFrom E.scan m (len + 1) s0 Pos.zero) = true :=
  LexIter.tiles_rawFrom ok _ _ _

theorem C04_fuel (E : LexEnv σ τ) (m : Metrics) (len : Nat) (s0 : σ) (ok : ScanOK E m len)
    (fuel : Nat) (h : fuel ≥ len + 1) :
    Spec.rawFrom E.scan m fuel s0 Pos.zero = Spec.rawFrom E.scan m (len + 1) s0 Pos.zero :=
  LexIter.rawFrom_fuel ok _ _ _ _ (by omega) (by omega)

/-- `iter_with_spans` is the `next` loop.  `LexIter.nextLoopList E fuel lx` is the plain loop, with
no side conditions: call `lx.next`; on `none` stop and return what was recorded (and the lexer as
that last call left it); on `some t` record `(t, tokenSpan, parseSpan)` of the lexer as the call
left it and repeat from that lexer; answer `none` only if `fuel` calls were not enough to see `next`
answer `none`.  Statement: under the scanner contract, for a fresh lexer — without filter, or with a
filter installed by `with_filter(f)` or by `set_filter(f)` — and any fuel of at least `len + 1`
(every delivered token is non-empty, so `len + 1` calls always suffice), the plain loop terminates
by a `none` answer of `next` and returns exactly the pair (list, final lexer) that
`Lexer.iterWithSpans` returns.  (The model's `iterWithSpans` additionally stops if a `next` call
fails to move the cursor forward inside the text; that guard exists for its termination proof and,
by this theorem, never fires.) -/
theorem C04_iter_is_next_loop (E : LexEnv σ τ) (m : Metrics) (len : Nat) (s0 : σ)
    (ok : ScanOK E m len) (f : Option Nat) (fuel : Nat) (hfuel : len + 1 ≤ fuel) :
    LexIter.nextLoopList E fuel (Lexer.new s0 m len)
      = some ((Lexer.new s0 m len).iterWithSpans E) ∧
    LexIter.nextLoopList E fuel ((Lexer.new s0 m len).withFilter E f)
      = some (((Lexer.new s0 m len).withFilter E f).iterWithSpans E) ∧
    LexIter.nextLoopList E fuel ((Lexer.new s0 m len).setFilter E f).2
      = some ((((Lexer.new s0 m len).setFilter E f).2).iterWithSpans E) :=
  ⟨LexIter.iter_is_next_loop ok _ (LexIter.inv_new s0) fuel hfuel,
   LexIter.iter_is_next_loop ok _ (LexIter.inv_withFilter ok s0 f) fuel hfuel,
   LexIter.iter_is_next_loop ok _ (LexIter.inv_setFilter ok s0 f) fuel hfuel⟩

/-- Consequence: the sequence of `(next, token_span, parse_span)` results of the plain `next` loop
on a fresh lexer with filter `f` is `Spec.delivered keep raw`. -/
theorem C04_next_loop_delivered (E : LexEnv σ τ) (m : Metrics) (len : Nat) (s0 : σ)
    (ok : ScanOK E m len) (f : Option Nat) (fuel : Nat) (hfuel : len + 1 ≤ fuel) :
    let raw := Spec.rawFrom E.scan m (len + 1) s0 Pos.zero
    let keep : τ → Bool := fun t => match f with | none => true | some k => E.passes k t
    (LexIter.nextLoopList E fuel ((Lexer.new s0 m len).withFilter E f)).map (·.1)
      = some (Spec.delivered keep raw) := by
  intro raw keep
  rw [(C04_iter_is_next_loop E m len s0 ok f fuel hfuel).2.1, Option.map_some]
  exact congrArg some (C04_iter_withFilter E m len s0 ok f)

/-! Non-vacuity: a stateful scanner over a 7-byte text (tokens of 1, 2, 3 bytes,
then one more byte; the state counts tokens and is the token value) satisfies the
contract, and with the filter "odd tokens only" the lexer delivers tokens 1 and 3
with parse span from the start of token 1. -/

def exScan : Nat → Metrics → Pos → Option (Nat × Pos) × Nat := fun s _ p =>
  if p.byte < 7 then
    (some (s, ⟨min 7 (p.byte + s + 1), 0, min 7 (p.byte + s + 1)⟩), s + 1)
  else (none, s)

def exEnv : LexEnv Nat Nat := ⟨exScan, fun _ t => t % 2 == 1, fun _ b => ⟨b, 0, b⟩⟩

theorem exEnv_ok (m : Metrics) : ScanOK exEnv m 7 := by
  constructor
  · intro s p tok adv s' h
    simp only [exEnv, exScan] at h
    split at h
    · cases h; simp only []; omega
    · cases h
  · intro s p h
    simp only [exEnv, exScan]
    rw [if_neg (by omega)]

example :
    (((Lexer.new 0 ⟨.lf, 4⟩ 7).withFilter exEnv (some 0)).iterWithSpans exEnv).1 =
      [(1, ⟨⟨1, 0, 1⟩, ⟨3, 0, 3⟩⟩, ⟨⟨1, 0, 1⟩, ⟨3, 0, 3⟩⟩),
       (3, ⟨⟨6, 0, 6⟩, ⟨7, 0, 7⟩⟩, ⟨⟨1, 0, 1⟩, ⟨7, 0, 7⟩⟩)] := by
  have := C04_iter exEnv ⟨.lf, 4⟩ 7 0 (exEnv_ok _) (some 0)
  simp only at this
  rw [this]
  decide

/-- Non-vacuity of `C04_iter_is_next_loop`: on the same lexer the plain `next` loop with 8 = 7 + 1
calls allowed ends by `None` and has recorded two items. -/
example :
    (LexIter.nextLoopList exEnv 8 ((Lexer.new 0 ⟨.lf, 4⟩ 7).withFilter exEnv (some 0))).map (·.1) =
      some [(1, ⟨⟨1, 0, 1⟩, ⟨3, 0, 3⟩⟩, ⟨⟨1, 0, 1⟩, ⟨3, 0, 3⟩⟩),
            (3, ⟨⟨6, 0, 6⟩, ⟨7, 0, 7⟩⟩, ⟨⟨1, 0, 1⟩, ⟨7, 0, 7⟩⟩)] := by
  have := C04_next_loop_delivered exEnv ⟨.lf, 4⟩ 7 0 (exEnv_ok _) (some 0) 8 (by omega)
  simp only at this
  rw [this]
  decide

/-! ### the parse-span clause on operation histories -/

/-- Parse span on histories.  `LexParseSpan.parseSpanTrack depth first known ops obs` walks a
history `ops` and the per-operation observations `obs = LexOps.exec …` (output and the lexer the
operation left) exactly as the driver's `parseSpanOK` does on the real code's observations:
`depth` counts open clones (inside a clone nothing is checked), `first` is the start of the first
token delivered since tracking (re)started, `known` says whether tracking is on.  A sub-lex mark
sets `first := none, known := true`; `advance_to` / `advance_up_to` set `known := false`; a
`next` / `next_if` whose output is a token, with tracking on, must satisfy
`parseSpan.s.byte = f.byte ∧ parseSpan.e = tokenSpan.e` for `f := first.getD tokenSpan.s`, and
sets `first := some f`; every other operation leaves the tracker alone.
Statement: under the scanner contract, the tracker started with `depth = 0, first = none,
known = true` accepts the observations of every history without a metrics builder, from a fresh
lexer.  Unbounded: any scanner state type, token type, scanner, filter table, metrics, length,
history (predicates of `next_if` / `advance_*` are arbitrary functions). -/
theorem C04_parse_span_history (E : LexEnv σ τ) (m : Metrics) (len : Nat) (s0 : σ)
    (ok : ScanOK E m len) (ops : List (LexOps.Op τ)) (hm : LexOps.metricsFree ops = true) :
    LexParseSpan.parseSpanTrack 0 none true ops (LexOps.exec E [Lexer.new s0 m len] ops) = true :=
  LexParseSpan.parse_span_history ok s0 ops hm

/-- The same for every history, metrics builders included (they re-measure the positions the lexer
holds, which is why the start is compared by byte offset): the scanner contract must then hold at
every metrics, and `E.measure m b` must be a position at byte offset `b`. -/
theorem C04_parse_span_history_metrics (E : LexEnv σ τ) (len : Nat)
    (okAll : ∀ m, ScanOK E m len) (hmeas : ∀ m b, (E.measure m b).byte = b)
    (m : Metrics) (s0 : σ) (ops : List (LexOps.Op τ)) :
    LexParseSpan.parseSpanTrack 0 none true ops (LexOps.exec E [Lexer.new s0 m len] ops) = true :=
  LexParseSpan.parse_span_history_metrics ⟨okAll, hmeas⟩ m s0 ops

/-- The measure hypothesis holds of the driver's environment on well-formed text. -/
theorem C04_measureText_byte (cfg : ScanCfg) (t : Text) (hwf : Text.WF t) (m : Metrics) (b : Nat) :
    ((lexEnv cfg t).measure m b).byte = b :=
  LexParseSpan.measureText_byte t hwf m b

open LexParseSpan.Witness in
/-- Non-vacuity: text `a ws b ws c`, every filter rejecting `ws`; the history
`with_filter; next; peek; start_sublex; next; next`.  The hypotheses hold, the history has no
metrics builder, the tracker's checks are real (three tokens are delivered with tracking on), and
the observations are: before the mark the parse span is `[a.start, a.end]`; after the mark it is
`[b.start, b.end]`, then `[b.start, c.end]` — not `[a.start, …]`. -/
example : ScanOK EP ⟨.lf, 4⟩ 5 ∧ LexOps.metricsFree opsP = true ∧
    (LexOps.exec EP [Lexer.new () ⟨.lf, 4⟩ 5] opsP).map (fun o => (o.1, o.2.tokenSpan, o.2.parseSpan)) =
      [(.unit, ⟨⟨0, 0, 0⟩, ⟨0, 0, 0⟩⟩, ⟨⟨0, 0, 0⟩, ⟨0, 0, 0⟩⟩),
       (.tok (some 1), ⟨⟨0, 0, 0⟩, ⟨1, 0, 1⟩⟩, ⟨⟨0, 0, 0⟩, ⟨1, 0, 1⟩⟩),
       (.tok (some 2), ⟨⟨0, 0, 0⟩, ⟨1, 0, 1⟩⟩, ⟨⟨0, 0, 0⟩, ⟨1, 0, 1⟩⟩),
       (.unit, ⟨⟨1, 0, 1⟩, ⟨1, 0, 1⟩⟩, ⟨⟨1, 0, 1⟩, ⟨1, 0, 1⟩⟩),
       (.tok (some 2), ⟨⟨2, 0, 2⟩, ⟨3, 0, 3⟩⟩, ⟨⟨2, 0, 2⟩, ⟨3, 0, 3⟩⟩),
       (.tok (some 3), ⟨⟨4, 0, 4⟩, ⟨5, 0, 5⟩⟩, ⟨⟨2, 0, 2⟩, ⟨5, 0, 5⟩⟩)] ∧
    LexParseSpan.parseSpanTrack 0 none true opsP (LexOps.exec EP [Lexer.new () ⟨.lf, 4⟩ 5] opsP) = true :=
  ⟨scanP_ok _, rfl, P_obs, C04_parse_span_history EP _ 5 () (scanP_ok _) opsP rfl⟩

open LexParseSpan.Witness in
/-- The tracker is not trivially `true`: fed the same observations but started as if a token at
byte 1 had already been delivered (`first = some ⟨1, 0, 1⟩`), it rejects them. -/
example : LexParseSpan.parseSpanTrack 0 (some ⟨1, 0, 1⟩) true opsP
    (LexOps.exec EP [Lexer.new () ⟨.lf, 4⟩ 5] opsP) = false := by
  simp [opsP, LexParseSpan.parseSpanTrack, LexParseSpan.isNoneOut, LexOps.exec, LexOps.applyOp,
    Lexer.withFilter, Lexer.setFilter, Lexer.peek, Lexer.bufferNext,
    Lexer.bufferLoop, Lexer.next, Lexer.nextLoop, Lexer.startSublex, Lexer.new, EP, scanP,
    Lexer.filtered, Pos.zero, Lexer.tokenSpan, Lexer.parseSpan, Span.enclosing]

open LexParseSpan.Witness in
/-- Non-vacuity of the version with metrics builders: the hypotheses hold of `EP`, and the history
`with_filter; next; with_tab_width(8); next; next` contains a builder. -/
example : (∀ m, ScanOK EP m 5) ∧ (∀ m b, (EP.measure m b).byte = b) ∧
    LexOps.metricsFree opsPM = false ∧
    LexParseSpan.parseSpanTrack 0 none true opsPM (LexOps.exec EP [Lexer.new () ⟨.lf, 4⟩ 5] opsPM) = true :=
  ⟨scanP_ok, fun _ _ => rfl, rfl,
    C04_parse_span_history_metrics EP 5 scanP_ok (fun _ _ => rfl) _ () opsPM⟩

end Tephra.Props
