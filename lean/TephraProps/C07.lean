/-
  C07 — repetition honours its bounds, is greedy and never strands a separator.
  INTERIM file.  Proved here about the reference semantics `Spec.pegRepLoop`
  (what the oracle evaluates on the real combinators' results):
  * an upper bound of zero yields the empty list and consumes nothing;
  * once `hi` items were taken the loop stops without trying a further item.
  The refinement theorem (the model of `intersperse*` / `repeat*` = `Spec.pegRep`)
  is in progress; until then the statement is carried by the `rep`
  correspondence family + oracle.
-/
import TephraModel.Run
import TephraModel.Spec.Peg

namespace Tephra.Props
open Tephra Tephra.Spec

theorem C07_hi_zero (text : Text) (n lo : Nat) (stop : Option G) (a sep : G) (s : PState) :
    pegRep text (n + 1) lo (some 0) stop a sep s = .ok (.list []) s := by
  simp [pegRep]

theorem C07_stops_at_hi (text : Text) (n lo h : Nat) (stop : Option G) (a sep : G) (vals : List Val)
    (s : PState) (hlen : h ≤ vals.length) :
    pegRepLoop text (n + 1) lo (some h) stop a sep vals s = .ok (.list vals.reverse) s := by
  have : Spec.hiAllows (some h) vals.length = false := by simp [Spec.hiAllows]; omega
  simp [pegRepLoop, this]

/-- The model of `intersperse` with upper bound zero returns the lexer it was given. -/
theorem C07_model_hi_zero (R : RunEnv) (n lo : Nat) (a sep : G) (lx : Lx) (ctx : Ctx) (W : World)
    (h : lo = 0) :
    interLoopStart R (n + 1) lo (some 0) a sep lx ctx W = (.ok (.list []) lx, W) := by
  subst h
  simp [interLoopStart, hiBelow]

end Tephra.Props
