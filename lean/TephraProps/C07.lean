/-
  C07 — repetition honours its bounds, is greedy and never strands a separator.

  English.  Setting as in C06 (`ScanOK`, `PassOK`, the relation `Abs lx s` between
  a lexer and a state of the reference evaluator).  The reference semantics of
  repetition is `Spec.pegRep` / `pegRepLoop`: take items greedily — the first item
  alone, every later one preceded by a separator, separator and item succeeding or
  failing together (a separator whose item fails is not consumed) — stop at the
  first failure or when `hi` items were taken; fail when fewer than `lo` were
  taken; with a stop parser, stop successfully at an item boundary as soon as it
  would succeed there.

  * `C07_partial` (PROVED): for every grammar of the fragment `pegWithRep` — the C06
    fragment plus `repeat repeat_count intersperse intersperse_count
    intersperse_default repeat_until intersperse_until` (and their counting forms)
    with bounds `lo ≤ hi`, nested arbitrarily — every fuel `n`, related `lx`/`s`,
    context, world: if the model (`run`, i.e. `interLoopStart`/`interLoop`/
    `untilStart`/`untilLoop`/`sepItem`) returns `Ok(v, lx')`, then the reference
    evaluator with any fuel `k ≥ 2 n` returns `ok v s'` with `lx'` related to `s'`;
    if the model returns an error, the reference fails; if the reference is out of
    fuel `k ≥ 2 n`, the model is out of fuel `n`; the model never panics.
    The two evaluators spend fuel differently (the reference loop takes one more
    step to notice that `hi` is reached, and evaluates the first item one level
    deeper), hence the separate fuels.
  * `C07_statement`: the same with filter-changing nodes allowed inside the
    repetition — kept as a `def`, NOT proved: finding F27 (proved as
    `C06_finding_F27`) applies as soon as a filter-changing node is entered while
    nothing has been consumed.
  * The three interim theorems are kept.

  Unbounded: any scanner, text, metrics, bounds, item/separator/stop grammars of
  the fragment, fuel.
-/
import TephraModel.Run
import TephraModel.Spec.Peg
import TephraProps.C06

namespace Tephra.Props
open Tephra Tephra.Spec

theorem C07_hi_zero (text : Text) (n lo : Nat) (stop : Option G) (a sep : G) (s : PState) :
    pegRep text (n + 1) lo (some 0) stop a sep s = .ok (.list []) s := by
  simp [pegRep]

theorem C07_stops_at_hi (text : Text) (n lo h : Nat) (stop : Option G) (a sep : G) (vals : List Val)
    (s : PState) (hlen : h ≤ vals.length) :
    pegRepLoop text (n + 1) lo (some h) stop a sep vals s = .ok (.list vals.reverse) s := by
  have : Spec.hiAllows (some h) vals.length = false := by simp [Spec.hiAllows]; omega
  simp [pegRepLoop, this]

/-- The model of `intersperse` with upper bound zero returns the lexer it was given. -/
theorem C07_model_hi_zero (R : RunEnv) (n lo : Nat) (a sep : G) (lx : Lx) (ctx : Ctx) (W : World)
    (h : lo = 0) :
    interLoopStart R (n + 1) lo (some 0) a sep lx ctx W = (.ok (.list []) lx, W) := by
  subst h
  simp [interLoopStart, hiBelow]

/-! ### the refinement theorem -/

open Tephra.PegRefine

/-- the root is a repetition combinator -/
def isRep : G → Bool
  | .repeat_ .. | .repeatUntil .. | .intersperse .. | .intersperseUntil .. | .intersperseDefault .. => true
  | _ => false

/-- FULL statement (kept as a def, not proved; F27 applies to its filter-changing instances):
repetition over any grammar of the PEG family, filter-changing nodes included. -/
def C07_statement : Prop :=
  ∀ (R : RunEnv) (m : Metrics) (len : Nat), ScanOK R.E m len → ScanFinal R.E m → PassOK R.E →
  ∀ (n : Nat) (g : G) (lx : Lx) (s : PState) (ctx : Ctx) (W : World),
    isRep g = true → Spec.supported g = true → noAssert g = true → Abs R.E m len lx s →
    (∀ v lx', (run R n g lx ctx W).1 = .ok v lx' → ∀ k, 2 * n ≤ k →
      ∃ v' s', peg R.text k g s = .ok v' s' ∧ normVal v = normVal v' ∧ Abs R.E m len lx' s') ∧
    (∀ e, (run R n g lx ctx W).1 = .err e → ∀ k, 2 * n ≤ k → peg R.text k g s = .fail)

/-- PROVED: the refinement on the filter-preserving fragment with repetition. -/
theorem C07_partial (R : RunEnv) (m : Metrics) (len : Nat) (ok : ScanOK R.E m len) (hp : PassOK R.E)
    (n : Nat) (g : G) (lx : Lx) (s : PState) (ctx : Ctx) (W : World)
    (hg : pegWithRep g = true) (a : Abs R.E m len lx s) :
    (∀ v lx', (run R n g lx ctx W).1 = .ok v lx' → ∀ k, 2 * n ≤ k →
      ∃ s', peg R.text k g s = .ok v s' ∧ Abs R.E m len lx' s') ∧
    (∀ e, (run R n g lx ctx W).1 = .err e → ∀ k, 2 * n ≤ k → peg R.text k g s = .fail) ∧
    (∀ k, 2 * n ≤ k → peg R.text k g s = .fuel → (run R n g lx ctx W).1 = .fuel) ∧
    (run R n g lx ctx W).1 ≠ .panic := by
  have key := fun k hk => rep_sim ok hp n n (Nat.le_refl n) k hk g lx s ctx W hg a
  refine ⟨?_, ?_, ?_, ?_⟩
  · intro v lx' h k hk
    have := key k hk
    rw [h] at this
    exact this
  · intro e h k hk
    have := key k hk
    rw [h] at this
    exact this
  · intro k hk h
    have := key k hk
    rw [h] at this
    cases hr : (run R n g lx ctx W).1 with
    | fuel => rfl
    | ok v lx' => rw [hr] at this; obtain ⟨_, h', _⟩ := this; cases h'
    | err e => rw [hr] at this; cases this
    | panic => rw [hr] at this; exact this.elim
  · intro h
    have := key (2 * n) (Nat.le_refl _)
    rw [h] at this
    exact this

/-- The C06 fragment is part of the C07 fragment. -/
theorem C07_extends_C06 : ∀ g, pegCore g = true → pegWithRep g = true := by
  intro g
  induction g <;> simp_all [pegCore, pegWithRep]

open PegRefine.Witness in
set_option maxRecDepth 4000 in
/-- Non-vacuity: on `a b` with the whitespace filter, `repeat(0, None, any([0,1]))` takes both
letters (the filtered whitespace between them is skipped). -/
example : ScanOK EW mW 3 ∧ PassOK EW ∧ Abs EW mW 3 lxW sW ∧
    pegWithRep (.repeat_ 0 0 none (.any [0, 1])) = true ∧
    okVal (run RW 9 (.repeat_ 0 0 none (.any [0, 1])) lxW ctxW World.init).1 =
      some (.list [.tok ⟨0, 0⟩, .tok ⟨1, 0⟩]) := by
  refine ⟨scanW_ok, passW, absW, rfl, ?_⟩
  simp [okVal, run, interLoopStart, interLoop, sepItem, countOf, hiBelow, hiAllows, hiReached, lxW, ctxW, RW, EW,
    scanW, mW, Lexer.withFilter, Lexer.setFilter, Lexer.new, Lexer.bufferNext, Lexer.bufferLoop, Lexer.next,
    Lexer.peek, Lexer.filtered, passesMask, classOf, Pos.zero]

end Tephra.Props
