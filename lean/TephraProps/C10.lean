/-
  C10 — bracket combinators match properly nested brackets of every kind.

  English.  `bracket*` find the bracket pair to parse between with
  `match_nested_brackets` (Lean model: `matchLoop`, TephraModel/Run.lean), which
  walks the lexer's filtered token stream keeping a *run-length-compressed* stack
  of open brackets `(kind, count)` and a clone of the lexer at the first open
  bracket.  The specification is `Spec.refMatch` (TephraModel/Spec/Bracket.lean):
  a plain stack of (kind, token index) over the list of token kinds; token `i`
  closes token `j` iff they are a properly nested pair of the same kind.

  Part A (pure).  `rleLoop` is the stack logic of `matchLoop` over a list of kinds
  (same branches, same `unwrap`s as `RleRes.panic`).
  * `C10_rle_refines_stack`: for every choice of open/close/abort kinds and every
    list of token kinds (any length, any nesting depth), the RLE loop and the plain
    stack give the same classification with the same token indices; `mismatch`
    reports the *first* open bracket, which is `refMatch`'s first component; the
    RLE loop never panics.  (No precondition on `opens`/`closes` is needed for the
    agreement; `bracket*` assert equal lengths and disjointness, which is what makes
    "kind index" mean "bracket kind".)
  * `C10_rle_invariant`: the refinement invariant `RleInv` (expanding the RLE stack
    gives the kinds of the plain stack, all counts ≥ 1, adjacent entries of
    different kinds, first-open index known iff something is open) holds initially
    and is kept by push / decrement / pop.
  * `C10_no_unreachable`: the branch that used to be `unreachable!()` (a close
    bracket ends a run while an enclosing bracket is still open) is a normal
    continuation — in `rleLoop`, in `matchLoop` and, in lock step, in the plain
    stack, with the invariant kept and the new top of another kind.

  Part B (lexer).  For any scanner/filter table satisfying the scanner contract
  `ScanOK` and any lexer satisfying the lexer invariant `LexIter.Inv` (every lexer
  reachable from `Lexer::new` by the public API does), let `K = kept lx` be the
  lexer's remaining filtered stream (raw tokens with spans).
  * `C10_match_refines`: with fuel ≥ |K| + 1, `matchLoop` on `lx` returns exactly
    what `refMatch` says on the kinds of `K`: `found open close idx` where `open`
    and `close` are well-formed lexers whose next (peeked) tokens are the
    `iOpen`-th / `iClose`-th tokens of `K`; each error carries the spans of the
    tokens with the reported indices (`NoneFound` at end of stream: the empty span
    at the start cursor).  Never `panic`, never out of fuel
    (`C10_match_no_panic_no_fuel`; `C10_run_fuel_enough`: the fuel `run` passes is
    enough).
  * `C10_bracket_positions`: the `bracket` case of `run`: on a match the inner
    parser is run on a fresh sub-lexer whose remaining stream is `K` from
    `iOpen + 1`, and the lexer returned on success (or after a delivered inner
    error) is the one whose remaining stream is `K` from `iClose + 1`
    (`C10_bracket_ok_lexer`); otherwise the error of `refMatch` with the spans above.

  Lean: `Tephra.BracketRefine.*` (TephraProofs/BracketRefine.lean).  Unbounded in
  the token list, the nesting depth, the scanner, the filter.
-/
import TephraModel.Run
import TephraModel.Spec.Bracket
import TephraProofs.BracketRefine

namespace Tephra.Props
open Tephra Tephra.Spec Tephra.BracketRefine Tephra.LexIter

theorem C10_ref_unopened (opens closes abort : List Nat) (k : Nat) (ks : List Nat) (kind : Nat)
    (h : closes.findIdx? (· == k) = some kind) :
    refMatch opens closes abort (k :: ks) = .unopened 0 := by
  simp [refMatch, refMatchLoop, h]

theorem C10_ref_abort_first (opens closes abort : List Nat) (k : Nat) (ks : List Nat)
    (hc : closes.findIdx? (· == k) = none) (ho : opens.findIdx? (· == k) = none)
    (ha : k ∈ abort) :
    refMatch opens closes abort (k :: ks) = .noneFound (some 0) := by
  simp [refMatch, refMatchLoop, hc, ho, ha]

theorem C10_ref_empty (opens closes abort : List Nat) : refMatch opens closes abort [] = .noneFound none := by
  simp [refMatch, refMatchLoop]

example : refMatch [8, 6] [9, 7] [] [8, 6, 0, 7, 9, 1] = .matched 0 4 0 := by decide
example : refMatch [8, 6] [9, 7] [] [8, 6, 0, 9] = .mismatch 0 1 3 := by decide

/-! ### Part A — the RLE stack refines the plain stack -/

/-- The RLE loop and the plain-stack reference agree on every input (classification
and indices; `ofRef` only forgets the `iOpenTop` component of `mismatch`). -/
theorem C10_rle_refines_stack (opens closes abort kinds : List Nat) :
    rleLoop opens closes abort kinds 0 [] none = ofRef (refMatch opens closes abort kinds) :=
  rle_refines_stack opens closes abort kinds

/-- the same from any pair of related states -/
theorem C10_rle_refines_stack_general (opens closes abort ks : List Nat) (i : Nat)
    (opened stack : List (Nat × Nat)) (first : Option Nat) (h : RleInv opened stack first) :
    rleLoop opens closes abort ks i opened first
      = ofRef (refMatchLoop opens closes abort ks i stack first) :=
  rleLoop_refines opens closes abort ks i opened stack first h

/-- `mismatch`: the RLE loop reports the first open bracket = `refMatch`'s `iOpen0`. -/
theorem C10_rle_mismatch_first (opens closes abort kinds : List Nat) (a t i : Nat)
    (h : refMatch opens closes abort kinds = .mismatch a t i) :
    rleLoop opens closes abort kinds 0 [] none = .mismatch a i := by
  rw [C10_rle_refines_stack, h]; rfl

theorem C10_rle_matched (opens closes abort kinds : List Nat) (a b k : Nat)
    (h : refMatch opens closes abort kinds = .matched a b k) :
    rleLoop opens closes abort kinds 0 [] none = .found a b k := by
  rw [C10_rle_refines_stack, h]; rfl

theorem C10_rle_no_panic (opens closes abort kinds : List Nat) :
    rleLoop opens closes abort kinds 0 [] none ≠ .panic :=
  rle_no_panic opens closes abort kinds

/-- The refinement invariant holds initially and is kept by the three stack moves. -/
theorem C10_rle_invariant :
    RleInv [] [] none ∧
    (∀ opened stack first idx i, RleInv opened stack first →
      RleInv (rlePush idx opened) ((idx, i) :: stack) (firstOpen first i)) ∧
    (∀ t cnt rest top stack first, RleInv ((t, cnt) :: rest) (top :: stack) first → 1 < cnt →
      RleInv ((t, cnt - 1) :: rest) stack first ∧ stack ≠ []) ∧
    (∀ t rest top stack first, RleInv ((t, 1) :: rest) (top :: stack) first → stack ≠ [] →
      RleInv rest stack first) := by
  refine ⟨RleInv.init, fun _ _ _ idx i h => h.push idx i, fun _ _ _ _ _ _ h hc => h.dec hc, ?_⟩
  intro t rest top stack first h hs
  obtain ⟨h1, h2, h3, h4⟩ := h.pop
  refine ⟨h1, h2, h3, ?_⟩
  have := h.first
  simp_all

/-- The repaired `unreachable!()`: a close bracket ends a run (`count = 1`) while an
enclosing bracket is still open.  The RLE loop simply continues with the run
popped; the plain stack continues too, the invariant is kept, and the new top is
of a different kind. -/
theorem C10_no_unreachable (opens closes abort : List Nat) (k idx : Nat) (ks : List Nat) (i : Nat)
    (rest stack : List (Nat × Nat)) (first : Option Nat)
    (hcl : position closes k = some idx) (hrest : rest ≠ [])
    (hinv : RleInv ((idx, 1) :: rest) stack first) :
    rleLoop opens closes abort (k :: ks) i ((idx, 1) :: rest) first
      = rleLoop opens closes abort ks (i + 1) rest first ∧
    ∃ top stack', stack = top :: stack' ∧ stack' ≠ [] ∧ RleInv rest stack' first ∧
      (match rest with | [] => True | (t, _) :: _ => t ≠ idx) ∧
      refMatchLoop opens closes abort (k :: ks) i stack first
        = refMatchLoop opens closes abort ks (i + 1) stack' first :=
  ⟨rle_pop_nonempty opens closes abort k idx ks i rest first hcl hrest,
   ref_pop_nonempty opens closes abort k idx ks i rest stack first hcl hrest hinv⟩

/-- the same branch in the model of `match_nested_brackets` itself -/
theorem C10_no_unreachable_model (R : RunEnv) (opens closes abort : List Nat) (sp : Span) (n : Nat)
    (lexer lexer' : Lx) (tok : Tok) (ol : Option Lx) (idx : Nat) (rest : List (Nat × Nat))
    (hpk : lexer.peek R.E = (some tok, lexer')) (hcl : position closes tok.kind = some idx)
    (hrest : rest ≠ []) :
    matchLoop R opens closes abort sp (n + 1) lexer ol ((idx, 1) :: rest)
      = matchLoop R opens closes abort sp n (lexer'.next R.E).2 ol rest :=
  matchLoop_pop_nonempty R opens closes abort sp n lexer lexer' tok ol idx rest hpk hcl hrest

example : rleLoop [8, 6] [9, 7] [] [8, 8, 6, 6, 0, 7, 7, 9, 9, 1] 0 [] none = .found 0 8 0 := by decide
example : rleLoop [8, 6] [9, 7] [] [8, 6, 0, 9] 0 [] none = .mismatch 0 3 := by decide
example : RleInv [(1, 2), (0, 1)] [(1, 5), (1, 4), (0, 2)] (some 2) :=
  ⟨rfl, by simp, ⟨by decide, trivial⟩, by simp⟩

/-! ### Part B — the lexer -/

/-- `match_nested_brackets` on a lexer = `refMatch` on the kinds of the lexer's
remaining filtered stream `K`; see `MatchRel` for how lexers and spans are read. -/
theorem C10_match_refines (R : RunEnv) (opens closes abort : List Nat) {m : Metrics} {len : Nat}
    {f : Option Nat} (ok : ScanOK R.E m len) {lx : Lx} (inv : Inv R.E m len f lx) (fuel : Nat)
    (hfuel : (kept R.E m len lx).length + 1 ≤ fuel) :
    MatchRel R.E m len f (kept R.E m len lx) (Span.at_ lx.cursor)
      (matchLoop R opens closes abort (Span.at_ lx.cursor) fuel lx none [])
      (ofRef (refMatch opens closes abort ((kept R.E m len lx).map (·.tok.kind)))) := by
  rw [← rle_refines_stack]
  exact matchLoop_spec R opens closes abort ok inv fuel hfuel

theorem C10_run_fuel_enough {E : LexEnv Nat Tok} {m : Metrics} {len : Nat} {f : Option Nat}
    (ok : ScanOK E m len) {lx : Lx} (inv : Inv E m len f lx) :
    (kept E m len lx).length + 1 ≤ lx.len + 2 :=
  run_fuel_enough ok inv

theorem C10_match_no_panic_no_fuel (R : RunEnv) (opens closes abort : List Nat) {m : Metrics} {len : Nat}
    {f : Option Nat} (ok : ScanOK R.E m len) {lx : Lx} (inv : Inv R.E m len f lx) (fuel : Nat)
    (hfuel : (kept R.E m len lx).length + 1 ≤ fuel) :
    (∀ x, matchLoop R opens closes abort (Span.at_ lx.cursor) fuel lx none [] = x →
      (match x with | .panic => False | .fuel => False | _ => True)) := by
  intro x hx
  have := C10_match_refines R opens closes abort ok inv fuel hfuel
  rw [hx] at this
  generalize ofRef (refMatch opens closes abort ((kept R.E m len lx).map (·.tok.kind))) = rr at this
  cases this <;> trivial

/-- The success path spelled out: if the reference matches token `iOpen` with
token `iClose` (kind `k`), `matchLoop` returns lexers peeked at exactly those
tokens, and the kind. -/
theorem C10_match_found (R : RunEnv) (opens closes abort : List Nat) {m : Metrics} {len : Nat}
    {f : Option Nat} (ok : ScanOK R.E m len) {lx : Lx} (inv : Inv R.E m len f lx) (fuel : Nat)
    (hfuel : (kept R.E m len lx).length + 1 ≤ fuel) (iOpen iClose k : Nat)
    (h : refMatch opens closes abort ((kept R.E m len lx).map (·.tok.kind)) = .matched iOpen iClose k) :
    ∃ o c, matchLoop R opens closes abort (Span.at_ lx.cursor) fuel lx none [] = .found o c k ∧
      Peeked R.E m len f (kept R.E m len lx) iOpen o ∧ Peeked R.E m len f (kept R.E m len lx) iClose c := by
  have := C10_match_refines R opens closes abort ok inv fuel hfuel
  rw [h] at this
  generalize matchLoop R opens closes abort (Span.at_ lx.cursor) fuel lx none [] = x at this
  cases this with
  | found ho hc => exact ⟨_, _, rfl, ho, hc⟩

/-- The `bracket` case of `run` against the reference matcher. -/
theorem C10_bracket_positions (R : RunEnv) {m : Metrics} {len : Nat} {f : Option Nat}
    (ok : ScanOK R.E m len) {lx : Lx} (inv : Inv R.E m len f lx)
    (n v : Nat) (opens closes abort : List Nat) (a : G) (ctx : Ctx) (W : World)
    (hpre : (opens.isEmpty || closes.isEmpty || opens.length != closes.length
              || opens.any (closes.contains ·)) = false) :
    BracketOutcome R m len f (kept R.E m len lx) (Span.at_ lx.cursor) n v a ctx W
      (run R (n + 1) (.bracket v opens a closes abort) lx ctx W)
      (ofRef (refMatch opens closes abort ((kept R.E m len lx).map (·.tok.kind)))) := by
  rw [← rle_refines_stack]
  exact run_bracket R ok inv n v opens closes abort a ctx W hpre

/-- A successful `bracket` parse: the reference matched some `iOpen`/`iClose`, and
the returned lexer's remaining filtered stream starts right after the close bracket. -/
theorem C10_bracket_ok_lexer (R : RunEnv) {m : Metrics} {len : Nat} {f : Option Nat}
    (ok : ScanOK R.E m len) {lx : Lx} (inv : Inv R.E m len f lx)
    (n v : Nat) (opens closes abort : List Nat) (a : G) (ctx : Ctx) (W : World)
    (hpre : (opens.isEmpty || closes.isEmpty || opens.length != closes.length
              || opens.any (closes.contains ·)) = false)
    (x : Val) (lx' : Lx) (W' : World)
    (h : run R (n + 1) (.bracket v opens a closes abort) lx ctx W = (.ok x lx', W')) :
    ∃ iOpen iClose k,
      refMatch opens closes abort ((kept R.E m len lx).map (·.tok.kind)) = .matched iOpen iClose k ∧
      AtIdx R.E m len f (kept R.E m len lx) (iClose + 1) lx' := by
  have hb := C10_bracket_positions R ok inv n v opens closes abort a ctx W hpre
  rw [h] at hb
  generalize hr : refMatch opens closes abort ((kept R.E m len lx).map (·.tok.kind)) = rr at hb
  generalize hx : ((.ok x lx', W') : RRes × World) = res at hb
  cases rr with
  | matched j i k =>
    refine ⟨j, i, k, rfl, ?_⟩
    simp only [ofRef] at hb
    cases hb with
    | found hi _ hc =>
      rw [bracketFinish_ok hx.symm]
      exact hc
  | noneFound o => cases o <;> (simp only [ofRef] at hb; cases hb <;> cases hx)
  | unopened i => simp only [ofRef] at hb; cases hb; cases hx
  | unclosed i => simp only [ofRef] at hb; cases hb; cases hx
  | mismatch a b c => simp only [ofRef] at hb; cases hb; cases hx

/-! non-vacuity: a table scanner over `[ ( ws ) ] a`, filter rejecting `ws` -/
section
private def mW : Metrics := ⟨.lf, 4⟩
private def RW : RunEnv := ⟨Witness.tabEnv [8, 6, 12, 7, 9, 0], []⟩
private def lxW : Lx := fresh 0 mW 6 (some 0)

example : ScanOK RW.E mW 6 ∧ Inv RW.E mW 6 (some 0) lxW := ⟨Witness.tab_ok _ _, inv_fresh 0 (some 0)⟩
example : (kept RW.E mW 6 lxW).map (·.tok.kind) = [8, 6, 7, 9, 0] := by decide
example : refMatch [8, 6] [9, 7] [] [8, 6, 7, 9, 0] = .matched 0 3 0 := by decide
example : ∃ o c, matchLoop RW [8, 6] [9, 7] [] (Span.at_ lxW.cursor) (lxW.len + 2) lxW none [] = .found o c 0 ∧
    Peeked RW.E mW 6 (some 0) (kept RW.E mW 6 lxW) 0 o ∧ Peeked RW.E mW 6 (some 0) (kept RW.E mW 6 lxW) 3 c :=
  C10_match_found RW [8, 6] [9, 7] [] (Witness.tab_ok _ _) (inv_fresh 0 (some 0)) _
    (C10_run_fuel_enough (Witness.tab_ok _ _) (inv_fresh 0 (some 0))) 0 3 0 (by decide)
end

end Tephra.Props
