/-
  C10 — bracket combinators match properly nested brackets of every kind.
  INTERIM file.  Proved here about the reference matcher `Spec.refMatch` (the
  oracle evaluated on the real combinators): a single properly closed pair is
  matched with its own indices; a close bracket with nothing open is `unopened`;
  an abort token before any open bracket stops the search.  The refinement
  theorem (the model of `match_nested_brackets`, with its run-length-compressed
  stack, classifies exactly as `refMatch`) is in progress; the `bracket` family
  + oracle carries the statement meanwhile.
-/
import TephraModel.Run
import TephraModel.Spec.Bracket

namespace Tephra.Props
open Tephra Tephra.Spec

theorem C10_ref_unopened (opens closes abort : List Nat) (k : Nat) (ks : List Nat) (kind : Nat)
    (h : closes.findIdx? (· == k) = some kind) :
    refMatch opens closes abort (k :: ks) = .unopened 0 := by
  simp [refMatch, refMatchLoop, h]

theorem C10_ref_abort_first (opens closes abort : List Nat) (k : Nat) (ks : List Nat)
    (hc : closes.findIdx? (· == k) = none) (ho : opens.findIdx? (· == k) = none)
    (ha : k ∈ abort) :
    refMatch opens closes abort (k :: ks) = .noneFound (some 0) := by
  simp [refMatch, refMatchLoop, hc, ho, ha]

theorem C10_ref_empty (opens closes abort : List Nat) : refMatch opens closes abort [] = .noneFound none := by
  simp [refMatch, refMatchLoop]

example : refMatch [8, 6] [9, 7] [] [8, 6, 0, 7, 9, 1] = .matched 0 4 0 := by decide
example : refMatch [8, 6] [9, 7] [] [8, 6, 0, 9] = .mismatch 0 1 3 := by decide

end Tephra.Props
