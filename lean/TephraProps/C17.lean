/-
  C17 — Span operations behave as interval set algebra.

  English: for any two spans over the same source, enclose returns the smallest
  span containing both, intersect their common part (present exactly when they
  touch or overlap), union one span when they touch and both otherwise, minus
  only parts of the first span not interior to the second that together cover
  everything of the first outside the second; results have start ≤ end with
  positions taken from the operands; contains / intersects / adjacent agree
  with byte-interval arithmetic.

  Lean: `holds x y (model x y)` where `model` is the model of the seven Rust
  methods (TephraModel.Span) and `holds` the executable statement
  (TephraModel.Spec.SpanAlg) — the same `holds` the driver evaluates on what the
  real `Span` methods return.  Hypotheses: the four endpoints are positions of
  one text (`coh`: equal byte offset ⇒ equal position; canonical positions of
  one text satisfy it, see `Tephra.Spec.canon` and C03) and each operand has
  start ≤ end (the invariant of `Span::enclosing`, the only constructor).
  Unbounded: all naturals, all line/column values.
-/
import TephraProofs.SpanAlg

namespace Tephra.Props
open Tephra Tephra.Spec Tephra.Fam.SpanOps

theorem C17_span_algebra (x y : Span)
    (hc : coh [x.s, x.e, y.s, y.e] = true) (hx : spanWF x = true) (hy : spanWF y = true) :
    holds x y (model x y) = true := by
  obtain ⟨a, b⟩ := x
  obtain ⟨c, d⟩ := y
  have H := coh4_of_coh hc
  have hab : a.byte ≤ b.byte := by simpa [spanWF] using hx
  have hcd : c.byte ≤ d.byte := by simpa [spanWF] using hy
  simp only [holds, model, Bool.and_eq_true]
  refine ⟨⟨⟨⟨⟨⟨⟨?_, ?_⟩, ?_⟩, ?_⟩, ?_⟩, ?_⟩, ?_⟩, ?_⟩
  · exact enclose_ok H hab hcd
  · exact intersect_ok H hab hcd
  · exact union_ok H hab hcd
  · exact minus_ok H hab hcd
  · simp only [containsOK]; rw [contains_iff H hab hcd c H.ac H.cb]; simp
  · simp only [containsOK]; rw [contains_iff H hab hcd d H.ad H.db]; simp
  · simp only [intersectsOK]; rw [intersects_iff H hab hcd]; simp
  · exact adjacent_ok H hab hcd

/-- Non-vacuity: a concrete overlapping pair with a shared endpoint meets the hypotheses. -/
example :
    let x : Span := ⟨⟨3, 2, 0⟩, ⟨10, 4, 4⟩⟩
    let y : Span := ⟨⟨5, 3, 1⟩, ⟨10, 4, 4⟩⟩
    coh [x.s, x.e, y.s, y.e] = true ∧ spanWF x = true ∧ spanWF y = true := by decide

/-- The defect repaired by the `fix:` commit, as a theorem about the *old* code:
the pinned `minus` violates the statement on (3–10) minus (5–20). -/
def minusPinned (x y : Span) : List Span :=
  let l := if Pos.lt x.s y.s then [Span.enclosing x.s y.s] else []
  let r := if Pos.lt x.e y.e then [Span.enclosing y.e x.e] else []
  l ++ r

theorem C17_pinned_minus_violates :
    minusOK ⟨⟨3, 2, 0⟩, ⟨10, 4, 4⟩⟩ ⟨⟨5, 3, 1⟩, ⟨20, 6, 3⟩⟩
      (minusPinned ⟨⟨3, 2, 0⟩, ⟨10, 4, 4⟩⟩ ⟨⟨5, 3, 1⟩, ⟨20, 6, 3⟩⟩) = false := by decide

end Tephra.Props
