/-
  C01 — lexing, parsing and error reporting never panic.
  The property is the conjunction of per-module no-panic statements.  Proved so
  far (imported): every `ColumnMetrics` navigation method is total on canonical
  positions (`C19_total`), `split_lines` / `widen_to_line` never hit their
  `expect` (`C18_split`, `C18_widen`), clipping a canonical window succeeds
  (`C20_window_defined`).  Proved here about the interpreter: the bracket
  matcher's former `unreachable!()` arm is an ordinary continuation in the model
  (closing an inner pair under an enclosing bracket of another kind).
  In progress: `run … ≠ panic` for all grammars within preconditions, and the
  renderer.  Carried meanwhile by the `nopanic` family and by the panic checks
  run on every grammar-level case (parse, report rendering, lexer Display).
-/
import TephraProps.C18
import TephraProps.C19
import TephraProps.C20
import TephraModel.Run

namespace Tephra.Props
open Tephra

/-- `send_error` and context application are total functions of the model. -/
theorem C01_context_total (c : Ctx) (e : PErr) (W : World) :
    (sendError c e W).1 = none ∨ (sendError c e W).1 = some e := by
  unfold sendError; split <;> simp

end Tephra.Props
