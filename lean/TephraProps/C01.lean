/-
  C01 — lexing, parsing and error reporting never panic.
  The property is the conjunction of per-module no-panic statements.  Proved so
  far (imported): every `ColumnMetrics` navigation method is total on canonical
  positions (`C19_total`), `split_lines` / `widen_to_line` never hit their
  `expect` (`C18_split`, `C18_widen`), clipping a canonical window succeeds
  (`C20_window_defined`).  Proved here about the interpreter: the bracket
  matcher's former `unreachable!()` arm is an ordinary continuation in the model
  (closing an inner pair under an enclosing bracket of another kind).
  `C01_run_no_panic_partial`: the interpreter never reaches a panic site on grammars
  within the documented preconditions (`any`/`any_index` lists non-empty, `lo ≤ hi`),
  for the fragment of `G` without `text`, `bracket`, `list` — for an arbitrary scanner
  (no scanner contract is needed on this fragment).
  `C01_run_no_panic_bracket_partial`: the same with `bracket*` added (precondition:
  non-empty, equal-length, disjoint slices), under the scanner contract `ScanOK` and from a
  well-formed lexer: the four `unwrap`s of `match_nested_brackets` are never reached.
  `C01_run_no_panic` (= `C01_run_statement`, proved): all of `G`, `text` and `list` included.
    * `text`: `Source.sliceBytes` is called on two positions stored in lexers; every stored
      position is a character boundary of the text (invariant carried through `run`, from
      `RunSpans.spAt` with `P := NoPanic.Bd R`), and the end is taken as the max of the two.
    * `list`: the model of the `debug_assert!` on the recover state in `finish` fires exactly
      when at least one value has been collected and the lexer still carries a recover state.
      Loop invariant: once a value has been collected the loop's lexer carries none —
      `stabilize` clears it after every value, and after a value the next token is the
      separator, an abort token or the end (by `up_to` when the item parser succeeded, by
      `advance_to_recover` with the list's own closure `sep_or_abort` otherwise), so the
      separator step `recover_default(discard(one(sep)))` succeeds without recovering.
      This needs the list's closure id to stand for `sep_or_abort` in the world
      (`IdsFunctional`: two nodes sharing an id carry the same predicate; in the Rust every
      closure is its own object).
  `C01_run_no_panic_from`: the same from any well-formed lexer whose positions are character
  boundaries and any world whose registered closures agree with the grammar's.
  Error reports (the clause "converting any returned or collected error into a source report and
  formatting it never panics"):
  `C01_report_total`: for a source with offset zero over a well-formed text, and any error all of
  whose span / position fields are canonical positions of that text (`ErrP (Spec.isCanon m t ·)`:
  aligned character boundaries carrying their canonical line and column; a count error reports
  fewer items than its minimum) with start ≤ end (`ErrWF`), the model of
  `ParseError::into_source_error` (`Report.reportOf`: message, span display built by
  `SpanDisplay::new` from the error's span, error-type highlights with their messages; `Display`
  text as the message for errors of other types such as a wrapper pushed by a context transform)
  succeeds and writing the report does not panic — `renderError` is the plain rendering compared
  with the implementation on every grammar-level case (`report=` / `sinkreport=` fields);
  `C01_report_total_any` is the same for any painter, colour on or off.
  `C01_run_report_total_from` / `C01_run_report_total`: every error `run` returns or sends to the
  sink — any grammar, fuel, context; any scanner that maps canonical positions to canonical
  positions — renders without panic (by `C13_spans_from_lexer` / `C03_run_spans` and
  `C13_start_le_end`).  `C01_harness_report_total`: the harness scanners satisfy that hypothesis.
  The hypothesis on count errors is necessary: `RepeatCountError { found ≥ expected_min,
  expected_max: None }` (never built by the library, but its fields are public) panics in
  `expected_description` (`expect("get max item count")`) — `C01_count_report_panics`.
  Lexer `Display` (the clause "formatting any reachable lexer state never panics"):
  `C01_lexer_display_total`: for a source with offset zero over a well-formed text and a lexer whose
  stored positions are canonical positions of that text under the source's metrics (`PosOK`), the
  model of `impl Display for Lexer` (`LexDisplay.lexerDisplay`: a note-type `CodeDisplay` "Lexer"
  with one span display built by `SpanDisplay::new` from `Span::enclosing(parse_start, cursor)`,
  info-type highlights `token (…)`, `parse (…)`, `cursor (…), scanner: …` and, if a non-empty token
  is buffered, `peek (…)`) is built and written without panic — `LexDisplay.renderLexer` is the
  text compared with the implementation after every operation of every `lexops` history.  No
  ordering of the stored positions is needed (`Span::enclosing` orders its arguments; the renderer
  asks nothing of where a highlight lies), so none is assumed; `C01_lexer_display_total_any`:
  any painter, colour on or off, and only the parse start and the cursor need be canonical.
  `C01_reachable_lexer_display_total`: every lexer reachable from `Lexer::new` by any sequence of
  public calls, metrics builders anywhere (`Lexer.ReachAll`), over a scanner that maps canonical
  cuts of the text to canonical cuts (the hypothesis of `C03_lexer_isCanon`; no `ScanOK` needed)
  formats without panic, by `C03_lexer_isCanon`; `C01_harness_lexer_display_total`: the harness
  scanners satisfy that hypothesis, and their `Debug` text is `S<state>`.
-/
import TephraProps.C18
import TephraProps.C19
import TephraProps.C20
import TephraModel.Run
import TephraProofs.NoPanic
import TephraProofs.NoPanicBr
import TephraProofs.NoPanicAll
import TephraProofs.BracketRefine
import TephraProofs.LexInv
import TephraProofs.Termination
import TephraProofs.ReportTotal
import TephraProofs.ScanClosed
import TephraProofs.LexDisplayTotal
import TephraProps.C03Lexer

namespace Tephra.Props
open Tephra

/-- `send_error` and context application are total functions of the model. -/
theorem C01_context_total (c : Ctx) (e : PErr) (W : World) :
    (sendError c e W).1 = none ∨ (sendError c e W).1 = some e := by
  unfold sendError; split <;> simp

/-- Constructors covered by `C01_run_no_panic_partial` (all of `G` except `text`, `bracket`,
`list`), with the documented preconditions: `empty one any anyIndex seq seqCount pred endOfText
left right both center map discard either maybe requireIf cond implies antecedent consequent
condImplies filterWith unfiltered sub spanned repeat_ repeatUntil intersperse intersperseUntil
intersperseDefault raw unrecoverable recover stabilize upTo probe ctxPushed ctxPush ctxLocked
someOf`.  `NoPanic.Frag g`: every `any`/`anyIndex` list in `g` is non-empty, every repetition has
`lo ≤ hi` (`hiBelow hi lo = false`), and `g` contains no `text`, `bracket`, `list`. -/
theorem C01_run_no_panic_partial (R : RunEnv) (n : Nat) (g : G) (lx : Lx) (ctx : Ctx) (W : World)
    (hf : NoPanic.Frag g) : (run R n g lx ctx W).1 ≠ .panic :=
  NoPanic.run_no_panic R n g lx ctx W hf

/-- The same with `bracket` (all of `G` except `text`, `list`), under the scanner contract and
from a well-formed lexer (`Term.WF`, e.g. `Lexer.new`): `NoPanic.Frag2 g` adds to `Frag` the
bracket precondition `BrPre opens closes` (both slices non-empty, of equal length, disjoint). -/
theorem C01_run_no_panic_bracket_partial {R : RunEnv} {m : Metrics} {len : Nat} (ok : ScanOK R.E m len)
    (n : Nat) (g : G) (lx : Lx) (ctx : Ctx) (W : World) (wf : Term.WF m len lx) (hf : NoPanic.Frag2 g) :
    (run R n g lx ctx W).1 ≠ .panic :=
  NoPanic.run_no_panic_br ok n g lx ctx W wf hf

/-- The full statement of the interpreter part of C01 (proved below: `C01_run_no_panic`): on any
grammar within the documented preconditions (`NoPanic.Pre`), for a scanner satisfying the
scanner contract and returning character boundaries of the text, from the initial state,
`run` never reaches a panic site. -/
def C01_run_statement : Prop :=
  ∀ (R : RunEnv) (m : Metrics) (len : Nat), ScanOK R.E m len → bytes R.text = len →
  Closed R.E (fun p => (splitAtByte R.text p.byte).isSome = true) m →
  ∀ (g : G), NoPanic.Pre g → Term.IdsFunctional (Term.recIds g) →
  ∀ (n s0 : Nat) (ctx : Ctx), (run R n g (Lexer.new s0 m len) ctx World.init).1 ≠ .panic

/-- General form: all of `G` (`text`, `bracket`, `list` included), from any lexer that is well
formed for the text (`Term.WF`) and stores character boundaries only (`PosOK (NoPanic.Bd R)`,
`NoPanic.Bd R p` = "`p.byte` is a character boundary of `R.text`"), and any world whose registered
recover closures agree with a table `T` the grammar's `recover`/`list` nodes agree with
(`Term.WOK`, `Term.Consistent`) and whose logged errors carry character boundaries. -/
theorem C01_run_no_panic_from {R : RunEnv} {m : Metrics} {len : Nat} {T : Nat → Rec}
    (ok : ScanOK R.E m len) (hcl : Closed R.E (NoPanic.Bd R) m)
    (n : Nat) (g : G) (lx : Lx) (ctx : Ctx) (W : World)
    (wf : Term.WF m len lx) (hpos : PosOK (NoPanic.Bd R) lx)
    (hw : Term.WOK T W) (hlog : ∀ e ∈ W.log, ErrQ (fun _ => True) (NoPanic.Bd R) e.body)
    (hc : Term.Consistent T g) (hf : NoPanic.Pre g) : (run R n g lx ctx W).1 ≠ .panic :=
  NoPanic.run_no_panic_all ⟨ok, hcl⟩ n g lx ctx W ⟨wf, ⟨hpos, wf.hmet⟩⟩ ⟨hw, hlog⟩ hc hf

/-- **C01, interpreter part**: running any parser assembled from the combinators within their
documented argument preconditions never panics. -/
theorem C01_run_no_panic : C01_run_statement := by
  intro R m len ok _ hcl g hf hids n s0 ctx
  exact NoPanic.run_no_panic_all (T := Term.tableOf (Term.recIds g)) ⟨ok, hcl⟩ n g _ ctx World.init
    (NoPanic.SL_new s0) NoPanic.SW_init (Term.consistent_tableOf g hids) hf

/-- the preconditions are necessary: the empty token list panics. -/
example (R : RunEnv) (lx : Lx) (ctx : Ctx) (W : World) : (run R 1 (.any []) lx ctx W).1 = .panic := by
  simp [run]

/-- non-vacuity: a grammar of the fragment. -/
example : NoPanic.Frag2 (.bracket 3 [6] (.any [0]) [7] [5]) := by
  simp [NoPanic.Frag2, NoPanic.BrPre]

example : NoPanic.Frag (.stabilize (.recover 1 0 (.repeat_ 0 1 (some 3) (.either (.any [0, 1]) (.one 2))) (.before 4))) := by
  simp [NoPanic.Frag, hiBelow]

/-! ### non-vacuity of `C01_run_no_panic`: a grammar with `text`, `list`, `bracket`, `recover` over a
concrete scanner and text -/

open BracketRefine.Witness in
/-- the text `a,a;` (four one-byte characters) and the table scanner over its token kinds -/
private def RW : RunEnv := ⟨BracketRefine.Witness.tabEnv [0, 4, 0, 5], [⟨97, 1, 1⟩, ⟨44, 1, 1⟩, ⟨97, 1, 1⟩, ⟨59, 1, 1⟩]⟩

/-- `text(list_bounded(1, 3, one(a), ',', [';']))` followed by a recovering bracket parser -/
private def gW : G :=
  .both (.text (.list 1 7 1 (some 3) (.one 0) 4 [5]))
    (.recover 1 8 (.bracket 3 [6] (.text (.list 2 9 0 none (.any [0]) 4 [7])) [7] [5]) (.before 5))

private theorem gW_pre : NoPanic.Pre gW := by
  simp [gW, NoPanic.Pre, NoPanic.BrPre, hiBelow]

private theorem gW_ids : Term.IdsFunctional (Term.recIds gW) := by
  intro p hp q hq h
  simp only [gW, Term.recIds, List.cons_append, List.nil_append, List.mem_cons, List.not_mem_nil, or_false] at hp hq
  rcases hp with rfl | rfl | rfl <;> rcases hq with rfl | rfl | rfl <;> first | rfl | (exfalso; revert h; decide)

open BracketRefine.Witness in
private theorem RW_closed (m : Metrics) : Closed RW.E (fun p => (splitAtByte RW.text p.byte).isSome = true) m := by
  intro s p tok adv s' _ h
  simp only [RW, BracketRefine.Witness.tabEnv, scanTab] at h
  split at h
  · next k hk =>
    cases h
    have hlt : p.byte < 4 := by
      apply Nat.lt_of_not_le; intro hle
      rw [List.getElem?_eq_none (by simpa using hle)] at hk; cases hk
    show (splitAtByte RW.text (p.byte + 1)).isSome = true
    have : p.byte = 0 ∨ p.byte = 1 ∨ p.byte = 2 ∨ p.byte = 3 := by omega
    rcases this with h | h | h | h <;> rw [h] <;> decide
  · cases h

open BracketRefine.Witness in
example (n s0 : Nat) (ctx : Ctx) : (run RW n gW (Lexer.new s0 ⟨.lf, 4⟩ 4) ctx World.init).1 ≠ .panic :=
  C01_run_no_panic RW ⟨.lf, 4⟩ 4 (tab_ok [0, 4, 0, 5] _) (by decide) (RW_closed _) gW gW_pre gW_ids n s0 ctx

/-! ### `IdsFunctional` is necessary in the model: when a `recover` node and a `list` node share a closure
id with different predicates, the list's own `advance_to_recover` calls use the wrong predicate
(`World.register` keeps the first), the separator step recovers, and `finish` meets a recover state.
(Not a defect of the Rust code, where every closure is its own object: ids are a modelling device.) -/

open BracketRefine.Witness in
example : (run ⟨BracketRefine.Witness.tabEnv [2, 1, 3, 1, 5], []⟩ 9 (.both (.recover 1 7 .empty (.after 1)) (.list 1 7 0 none (.one 0) 4 [5]))
    (Lexer.new 0 ⟨.lf, 4⟩ 5) ⟨true, [], false⟩ World.init).1 = .panic := by
  simp [run, Term.listLoop_succ, Term.listFinish, Term.listItem, Term.listDv, recoverDefault, stabValue, stabLoop,
    advanceToRecover, recoverLoop, askRecover, World.register, World.init, sendError, mkErr, Lexer.new, Lexer.peek,
    Lexer.next, Lexer.bufferNext, Lexer.bufferLoop, Lexer.filtered, Lexer.setRecoverState, Lexer.intoSublexer,
    Lexer.startSublex, Lexer.isEmpty, BracketRefine.Witness.tabEnv, scanTab, Pos.zero, Ctx.apply, Ctx.withoutSink, hiBelow, hiReached,
    Lexer.parseSpan, Lexer.tokenSpan, Span.enclosing]

/-! ### error reports -/

/-- **C01, report clause.**  Converting an error whose spans are canonical in-bounds spans of the
text into a source report and formatting it (colour disabled) never panics. -/
theorem C01_report_total (m : Metrics) (_htab : 1 ≤ m.tab) (t : Text) (hwf : Text.WF t)
    (E : Report.Env) (e : PErr)
    (hcanon : ErrP (fun p => Spec.isCanon m t p = true) e.body) (hle : ErrWF e.body) :
    Report.renderError ⟨t, m, Pos.zero⟩ E e ≠ .panic := by
  obtain ⟨s, hs⟩ := ReportPf.renderError_ok m t hwf E e hcanon hle
  rw [hs]; simp

/-- The same in two steps, for any painter and colour enablement: the conversion succeeds and the
report it yields is written without panic. -/
theorem C01_report_total_any (paint : Render.Style → String → String) (color : Bool)
    (m : Metrics) (_htab : 1 ≤ m.tab) (t : Text) (hwf : Text.WF t) (E : Report.Env) (e : PErr)
    (hcanon : ErrP (fun p => Spec.isCanon m t p = true) e.body) (hle : ErrWF e.body) :
    ∃ cd, Report.reportOf ⟨t, m, Pos.zero⟩ E e = .ok cd ∧
      Render.writeCodeDisplay paint ⟨t, m, Pos.zero⟩ { cd with colorEnabled := color } ≠ .panic := by
  obtain ⟨cd, hcd, s, hs⟩ := ReportPf.reportOf_ok paint color m t hwf E e hcanon hle
  exact ⟨cd, hcd, by rw [hs]; simp⟩

/-- Every error `run` returns or sends to the sink renders without panic: from any lexer whose
stored positions are canonical positions of the text and a world whose logged errors are such,
over any scanner that maps canonical positions to canonical positions. -/
theorem C01_run_report_total_from (R : RunEnv) (m : Metrics) (_htab : 1 ≤ m.tab) (hwf : Text.WF R.text)
    (E : Report.Env) (n : Nat) (g : G) (lx : Lx) (ctx : Ctx) (W : World) (hm : lx.metrics = m)
    (hc : Closed R.E (fun p => Spec.isCanon m R.text p = true) m)
    (hp : PosOK (fun p => Spec.isCanon m R.text p = true) lx)
    (hW : ∀ e ∈ W.log, ErrP (fun p => Spec.isCanon m R.text p = true) e.body ∧ ErrWF e.body) :
    (∀ e, (run R n g lx ctx W).1 = .err e → Report.renderError ⟨R.text, m, Pos.zero⟩ E e ≠ .panic) ∧
    (∀ e ∈ (run R n g lx ctx W).2.log, Report.renderError ⟨R.text, m, Pos.zero⟩ E e ≠ .panic) := by
  have h1 := RunSpans.run_spans R _ n g lx ctx W (hm ▸ hc) hp (fun e he => (hW e he).1)
  have h2 := RunSpans.run_wf R n g lx ctx W (fun e he => (hW e he).2)
  exact ⟨fun e he => C01_report_total m _htab R.text hwf E e (h1.2.1 e he) (h2.2.1 e he),
    fun e he => C01_report_total m _htab R.text hwf E e (h1.2.2 e he) (h2.2.2 e he)⟩

/-- … in particular from a fresh lexer and the initial world. -/
theorem C01_run_report_total (R : RunEnv) (m : Metrics) (_htab : 1 ≤ m.tab) (hwf : Text.WF R.text)
    (hc : Closed R.E (fun p => Spec.isCanon m R.text p = true) m)
    (E : Report.Env) (s0 len n : Nat) (g : G) (ctx : Ctx) :
    (∀ e, (run R n g (Lexer.new s0 m len) ctx World.init).1 = .err e →
      Report.renderError ⟨R.text, m, Pos.zero⟩ E e ≠ .panic) ∧
    (∀ e ∈ (run R n g (Lexer.new s0 m len) ctx World.init).2.log,
      Report.renderError ⟨R.text, m, Pos.zero⟩ E e ≠ .panic) := by
  have h0 : Spec.isCanon m R.text Pos.zero = true :=
    (MeasureCanon.isCanon_iff m R.text hwf Pos.zero).mpr
      (MeasureCanon.canonCut_zero R.text _ (MeasureCanon.alignedAll_nil R.text m) m)
  exact C01_run_report_total_from R m _htab hwf E n g _ ctx World.init rfl hc
    (LexInv.new_pos h0 s0 m len) (by simp [World.init])

/-- The harness scanners (every configuration) over any well-formed text: no scanner hypothesis. -/
theorem C01_harness_report_total (cfg : ScanCfg) (t : Text) (hwf : Text.WF t) (m : Metrics) (_htab : 1 ≤ m.tab)
    (E : Report.Env) (s0 len n : Nat) (g : G) (ctx : Ctx) :
    (∀ e, (run ⟨lexEnv cfg t, t⟩ n g (Lexer.new s0 m len) ctx World.init).1 = .err e →
      Report.renderError ⟨t, m, Pos.zero⟩ E e ≠ .panic) ∧
    (∀ e ∈ (run ⟨lexEnv cfg t, t⟩ n g (Lexer.new s0 m len) ctx World.init).2.log,
      Report.renderError ⟨t, m, Pos.zero⟩ E e ≠ .panic) :=
  C01_run_report_total ⟨lexEnv cfg t, t⟩ m _htab hwf (ScanClosed.scanText_closed_isCanon cfg t hwf m)
    E s0 len n g ctx

/-- The count clause of the hypothesis is necessary: a count error whose `found` is not below its
minimum and that has no maximum cannot be described (`expect("get max item count")`). -/
theorem C01_count_report_panics (src : Source) (E : Report.Env) (sp : Span) (trail : List Nat) :
    Report.renderError src E ⟨trail, .count sp 1 1 none⟩ = .panic := by
  simp [Report.renderError, Report.reportOf, Report.ownReport, Report.defaultReport, Report.displayErr,
    Report.displayBody, Report.countDescription]

/-- the text `a⏎b` -/
private def repText : Text := [⟨97, 1, 1⟩, ⟨10, 1, 0⟩, ⟨98, 1, 1⟩]

/-- Non-vacuity of `C01_report_total`: a mismatched-brackets error whose two spans lie on
different lines, and a tagged boundary error, satisfy the hypotheses. -/
example : Text.WF repText ∧
    ErrP (fun p => Spec.isCanon ⟨.lf, 4⟩ repText p = true)
      (.bracketMismatch ⟨⟨0, 0, 0⟩, ⟨1, 0, 1⟩⟩ ⟨⟨2, 1, 0⟩, ⟨3, 1, 1⟩⟩) ∧
    ErrWF (.bracketMismatch ⟨⟨0, 0, 0⟩, ⟨1, 0, 1⟩⟩ ⟨⟨2, 1, 0⟩, ⟨3, 1, 1⟩⟩) ∧
    ErrP (fun p => Spec.isCanon ⟨.lf, 4⟩ repText p = true) (.boundary ⟨⟨0, 0, 0⟩, ⟨1, 0, 1⟩⟩ ⟨3, 1, 1⟩) ∧
    ErrP (fun p => Spec.isCanon ⟨.lf, 4⟩ repText p = true) (.count ⟨⟨0, 0, 0⟩, ⟨2, 1, 0⟩⟩ 1 2 none) := by
  refine ⟨by intro c hc; simp [repText] at hc; rcases hc with rfl | rfl | rfl <;> decide, ?_,
    by simp [ErrWF, ErrQ], ?_, ?_⟩ <;>
    simp [ErrP, ErrQ, SpanP, Spec.isCanon, Spec.canonAt, Spec.cutAt, splitAtByte, Spec.aligned, repText,
      Spec.canon, Spec.canonFrom, Spec.linesOf, breakAt, lbCodes, stripCodes, Spec.colWidth, bytes, Pos.zero]

/-- Non-vacuity of `C01_run_report_total`: `one(b)` on the text `a⏎b` fails with an error, over
the plain harness scanner. -/
example : (run ⟨lexEnv (ScanCfg.ofId 0) repText, repText⟩ 1 (.one 1) (Lexer.new 1 ⟨.lf, 4⟩ 3)
    ⟨false, [], false⟩ World.init).1 =
      .err ⟨[], .unexp ⟨Pos.zero, Pos.zero⟩ ⟨Pos.zero, ⟨1, 0, 1⟩⟩ (.token 1) (.token ⟨0, 0⟩)⟩ := by
  simp only [run, Lexer.next, Lexer.new]
  rw [Lexer.nextLoop]
  simp [lexEnv, scanText, ScanCfg.ofId, repText, splitAtByte, kindOf, kWs, resOpt, Source.nextPosition,
    Source.withByteOffset, Tephra.nextPosition, stepSuf, csub, breakAt, lbCodes, stripCodes, stepCh,
    Source.sliceBytes, Lexer.filtered, Pos.zero, Lexer.parseSpan, Lexer.tokenSpan, Span.enclosing, mkErr]

/-! ### the lexer's `Display` -/

/-- **C01, lexer `Display` clause.**  Formatting a lexer whose stored positions are canonical
positions of the source text never panics.  (The orderings parse start ≤ token start ≤ cursor ≤
buffered token are true of every reachable lexer but are not needed.) -/
theorem C01_lexer_display_total {σ τ : Type} (src : Source) (hoff : src.offset = Pos.zero)
    (hwf : Text.WF src.text) (_htab : 1 ≤ src.metrics.tab)
    (scannerDebug : String) (name : Option String) (lx : Lexer σ τ)
    (hp : PosOK (fun p => Spec.isCanon src.metrics src.text p = true) lx) :
    LexDisplay.renderLexer src scannerDebug lx name ≠ .panic := by
  obtain ⟨s, hs⟩ := LexDisplayPf.renderLexer_ok_src src hoff hwf scannerDebug name lx hp
  rw [hs]; simp

/-- The same in two steps, for any painter and colour enablement; only the parse start and the
cursor are looked at. -/
theorem C01_lexer_display_total_any {σ τ : Type} (paint : Render.Style → String → String) (color : Bool)
    (m : Metrics) (_htab : 1 ≤ m.tab) (t : Text) (hwf : Text.WF t)
    (scannerDebug : String) (name : Option String) (lx : Lexer σ τ)
    (hs : Spec.isCanon m t lx.parseStart = true) (hc : Spec.isCanon m t lx.cursor = true) :
    ∃ cd, LexDisplay.lexerDisplay ⟨t, m, Pos.zero⟩ scannerDebug lx name = .ok cd ∧
      Render.writeCodeDisplay paint ⟨t, m, Pos.zero⟩ { cd with colorEnabled := color } ≠ .panic := by
  obtain ⟨cd, hcd, s, hs'⟩ := LexDisplayPf.lexerDisplay_ok paint color m t hwf scannerDebug name lx hs hc
  exact ⟨cd, hcd, by rw [hs']; simp⟩

/-- Every reachable lexer formats without panic: any sequence of `peek`, `next`, `next_if`,
`set_filter`, `with_filter`, `start_sublex`, `into_sublexer`, `advance_to`, `advance_up_to`,
`buffer_next`, `set_recover_state` and the three metrics builders after `Lexer::new`, over the
whole of a well-formed text (`measure` is the real re-measurement) and a scanner that, at every
metrics, maps a canonical cut of the text to a canonical cut (never stopping between a CR and an
LF).  The source the lexer formats against carries the lexer's current metrics. -/
theorem C01_reachable_lexer_display_total {σ τ : Type} (E : LexEnv σ τ) (t : Text) (hwf : Text.WF t)
    (hE : E.measure = measureText t) (hc : ∀ m, Closed E (CanonCut t AlignedAll m) m)
    (lx : Lexer σ τ) (hr : Lexer.ReachAll E lx) (_htab : 1 ≤ lx.metrics.tab)
    (scannerDebug : String) (name : Option String) :
    LexDisplay.renderLexer (LexDisplay.lexerSource t lx) scannerDebug lx name ≠ .panic :=
  C01_lexer_display_total (LexDisplay.lexerSource t lx) rfl hwf _htab scannerDebug name lx
    (C03_lexer_isCanon E t hwf hE hc lx hr).1

/-- The harness scanners (every configuration) over any well-formed text: no scanner hypothesis;
this is the text whose fingerprint every `lexops` state observation carries. -/
theorem C01_harness_lexer_display_total (cfg : ScanCfg) (t : Text) (hwf : Text.WF t)
    (lx : Lexer Nat Tok) (hr : Lexer.ReachAll (lexEnv cfg t) lx) (_htab : 1 ≤ lx.metrics.tab) :
    LexDisplay.renderLexer (LexDisplay.lexerSource t lx) s!"S{lx.scanner}" lx ≠ .panic :=
  C01_reachable_lexer_display_total (lexEnv cfg t) t hwf rfl (C03_harness_closed cfg t hwf) lx hr _htab _ _

/-- Non-vacuity: the former F11 witness — `new(tab 4).with_filter(skip whitespace).with_tab_width(8)`
on the text `⇥⇥a` — is reachable with a builder call after a scanning call, has tab width 8 and a
buffered token (so all four highlights are attached, the last one beyond the cursor). -/
example :
    let lx := ((Lexer.new 1 ⟨.lf, 4⟩ 3 : Lexer Nat Tok).withFilter f11Env (some 1)).withTabWidth f11Env 8
    Lexer.ReachAll f11Env lx ∧ 1 ≤ lx.metrics.tab ∧ lx.peekTokenSpan = some ⟨⟨2, 0, 16⟩, ⟨3, 0, 17⟩⟩ ∧
    (LexDisplay.lexerHighlights s!"S{lx.scanner}" lx).length = 4 := by
  have h := C03_former_F11_witness
  refine ⟨h.1, ?_, h.2.2.2.2.2.1, ?_⟩
  · simp [Lexer.withTabWidth, Lexer.remeasureAll]
  · simp only [LexDisplay.lexerHighlights, h.2.2.2.2.2.1]
    rfl

end Tephra.Props
