/-
  C01 — lexing, parsing and error reporting never panic.
  The property is the conjunction of per-module no-panic statements.  Proved so
  far (imported): every `ColumnMetrics` navigation method is total on canonical
  positions (`C19_total`), `split_lines` / `widen_to_line` never hit their
  `expect` (`C18_split`, `C18_widen`), clipping a canonical window succeeds
  (`C20_window_defined`).  Proved here about the interpreter: the bracket
  matcher's former `unreachable!()` arm is an ordinary continuation in the model
  (closing an inner pair under an enclosing bracket of another kind).
  `C01_run_no_panic_partial`: the interpreter never reaches a panic site on grammars
  within the documented preconditions (`any`/`any_index` lists non-empty, `lo ≤ hi`),
  for the fragment of `G` without `text`, `bracket`, `list` — for an arbitrary scanner
  (no scanner contract is needed on this fragment).
  `C01_run_no_panic_bracket_partial`: the same with `bracket*` added (precondition:
  non-empty, equal-length, disjoint slices), under the scanner contract `ScanOK` and from a
  well-formed lexer: the four `unwrap`s of `match_nested_brackets` are never reached.
  Missing for the full statement (`C01_run_statement`): the panic site of `text`
  (`Source.sliceBytes`: needs the lexer positions to be character boundaries of the text,
  i.e. a position invariant carried through `run`) and of `list` (the `debug_assert` on the
  recover state in `finish`: needs the fact that after a value the next token is a separator
  or an abort token, so that the separator step never recovers).
  In progress: those two, and the renderer.  Carried meanwhile by the `nopanic` family and by the panic checks
  run on every grammar-level case (parse, report rendering, lexer Display).
-/
import TephraProps.C18
import TephraProps.C19
import TephraProps.C20
import TephraModel.Run
import TephraProofs.NoPanic
import TephraProofs.NoPanicBr
import TephraProofs.LexInv
import TephraProofs.Termination

namespace Tephra.Props
open Tephra

/-- `send_error` and context application are total functions of the model. -/
theorem C01_context_total (c : Ctx) (e : PErr) (W : World) :
    (sendError c e W).1 = none ∨ (sendError c e W).1 = some e := by
  unfold sendError; split <;> simp

/-- Constructors covered by `C01_run_no_panic_partial` (all of `G` except `text`, `bracket`,
`list`), with the documented preconditions: `empty one any anyIndex seq seqCount pred endOfText
left right both center map discard either maybe requireIf cond implies antecedent consequent
condImplies filterWith unfiltered sub spanned repeat_ repeatUntil intersperse intersperseUntil
intersperseDefault raw unrecoverable recover stabilize upTo probe ctxPushed ctxPush ctxLocked
someOf`.  `NoPanic.Frag g`: every `any`/`anyIndex` list in `g` is non-empty, every repetition has
`lo ≤ hi` (`hiBelow hi lo = false`), and `g` contains no `text`, `bracket`, `list`. -/
theorem C01_run_no_panic_partial (R : RunEnv) (n : Nat) (g : G) (lx : Lx) (ctx : Ctx) (W : World)
    (hf : NoPanic.Frag g) : (run R n g lx ctx W).1 ≠ .panic :=
  NoPanic.run_no_panic R n g lx ctx W hf

/-- The same with `bracket` (all of `G` except `text`, `list`), under the scanner contract and
from a well-formed lexer (`Term.WF`, e.g. `Lexer.new`): `NoPanic.Frag2 g` adds to `Frag` the
bracket precondition `BrPre opens closes` (both slices non-empty, of equal length, disjoint). -/
theorem C01_run_no_panic_bracket_partial {R : RunEnv} {m : Metrics} {len : Nat} (ok : ScanOK R.E m len)
    (n : Nat) (g : G) (lx : Lx) (ctx : Ctx) (W : World) (wf : Term.WF m len lx) (hf : NoPanic.Frag2 g) :
    (run R n g lx ctx W).1 ≠ .panic :=
  NoPanic.run_no_panic_br ok n g lx ctx W wf hf

/-- The full statement of the interpreter part of C01 (NOT proved; `text` and `list` are
missing): on any grammar within the documented preconditions (`NoPanic.Pre`), for a scanner
satisfying the scanner contract and returning character boundaries of the text, from the
initial state, `run` never reaches a panic site. -/
def C01_run_statement : Prop :=
  ∀ (R : RunEnv) (m : Metrics) (len : Nat), ScanOK R.E m len → bytes R.text = len →
  Closed R.E (fun p => (splitAtByte R.text p.byte).isSome = true) m →
  ∀ (g : G), NoPanic.Pre g → Term.IdsFunctional (Term.recIds g) →
  ∀ (n s0 : Nat) (ctx : Ctx), (run R n g (Lexer.new s0 m len) ctx World.init).1 ≠ .panic

/-- the preconditions are necessary: the empty token list panics. -/
example (R : RunEnv) (lx : Lx) (ctx : Ctx) (W : World) : (run R 1 (.any []) lx ctx W).1 = .panic := by
  simp [run]

/-- non-vacuity: a grammar of the fragment. -/
example : NoPanic.Frag2 (.bracket 3 [6] (.any [0]) [7] [5]) := by
  simp [NoPanic.Frag2, NoPanic.BrPre]

example : NoPanic.Frag (.stabilize (.recover 1 0 (.repeat_ 0 1 (some 3) (.either (.any [0, 1]) (.one 2))) (.before 4))) := by
  simp [NoPanic.Frag, hiBelow]

end Tephra.Props
