/-
  C09 — scoped combinators leave the surrounding parse configuration intact.

  English.  The parse configuration surrounding a parser is (a) the lexer's
  token filter, column metrics and text length, (b) the error context, (c) what
  has already been reported.

  * `C09_filter_frame`: for EVERY grammar of the combinator family (all
    constructors of `G`: primitives, joins, alternatives, options, repetitions,
    `filter_with` / `unfiltered`, `sub`, `spanned`, `text`, `recover*`,
    `stabilize`, `bracket*`, `list*`, `up_to`, context operations), every fuel,
    lexer, context and world: when the run returns successfully, the lexer it
    returns has the filter, the metrics and the length of the lexer it was
    given.  In particular after a filter-scoping combinator returns the filter
    is the one in force before, however the wrapped parser ended (by success of
    an inner `maybe`, a recovery, a bracket match, …).
  * `C09_context_by_value`: a context is a value; `both`, `left`, `right`,
    `center` run every one of their parsers with exactly the context the
    combinator was given, whatever the earlier siblings did with theirs
    (`unrecoverable`, `raw`, pushes, locks).
  * `C09_world_frame`: a run never removes or rewrites anything already
    reported: the sink log and the probe log before the run are prefixes of the
    logs after it (for every grammar and outcome, failure and panic included).
  * The interim theorems (sibling context of `both`, `unfiltered` re-installs
    the replaced filter) are kept.

  The consequence clause ("the result and the diagnostics of a later sibling are
  the same whether or not an earlier sibling was wrapped"):

  * `C09_sibling_independent`: in `both` / `left` / `right` / `center` the later
    sibling's outcome is `run b` on (the lexer the earlier sibling returned, the
    combinator's OWN context, the world the earlier sibling left) and on nothing
    else.  Two arbitrary earlier siblings `a`, `a'` (wrapped or not, even started
    from different lexers and worlds) that return the same lexer and world give
    the same outcome of `b` — same error or panic, same returned lexer, same
    world, same value of `b`; only `a`'s own value differs in the pair
    (`thenWith f r` = `r` with `f` applied to the value if `r` is a success).
    The lexer handed to `b` has the filter of the combinator's lexer.
    `C09_sibling_not_run`: if the earlier sibling does not succeed `b` is not run.
  * `C09_context_independent`: `run` consults the context in exactly two places,
    `sendError` (in `recover*`, `bracket*`, `list*`) and `probe`; a RETURNED
    error is never decorated with the context (`Ctx.apply` is used only on the
    way into the sink and in the probe line).  So for a context-insensitive
    grammar (`CtxFree g`: no `probe`, and `recover*` / `bracket*` / `list*` only
    below a `maybe` / `unrecoverable` / antecedent of `implies`) the whole run —
    success or failure — is the same under every context.
    `C09_context_sink_only`: a probe-free grammar (`SinkOnly g`) depends only on
    whether there is a sink.
  * `C09_unrecoverable_transparent`, `C09_raw_transparent`: for `CtxFree a`,
    `run (n+1) (unrecoverable a) = run n a` and `run (n+1) (raw a) = run n a`
    (the wrapper costs one unit of fuel, nothing else; all outcomes), and with
    the same fuel `m ≥ n+1` on both sides once `n` suffices for `a`.
    `C09_wrappers_transparent_nosink`: without a sink `unrecoverable` is the
    identity on every grammar, `raw` on every probe-free one.  The hypotheses
    are needed: examples at the end (`recover` under a sink: `unrecoverable`
    turns a reported-and-recovered error into a failure, `raw` changes the
    reported trail; `probe`).
  * `C09_wrapped_sibling_same` / `C09_wrapped_sibling_offset`: for `CtxFree a`
    and EVERY later sibling (context-sensitive ones included), `both`, `left`,
    `right`, `center` with first parser `unrecoverable a`, `raw a` or `a` are
    equal (result and world), fuel offsets explicit.
  * `C09_maybe_transparent`, `C09_maybe_run`: `maybe a` runs `a` WITHOUT the sink;
    on success same lexer and world (value in `some`), on failure the original
    lexer value and the world left by the failed attempt (sink log unchanged);
    the later sibling of a `both` runs from exactly these under the combinator's
    own context.  The naive "if `a` succeeds under `ctx` then `maybe a` returns
    what `a` returns" is FALSE for context-sensitive `a`
    (`C09_maybe_naive_statement_false`; corrected: `C09_maybe_success_same`).
  * `C09_filter_scope`, `C09_filter_scope_failure`: `filter_with` / `unfiltered`
    in all outcomes; on failure the error and world are passed on and an
    alternative sibling runs from the caller's own lexer value.

  Lean: `run` is the model of the combinators (TephraModel.Run), checked against
  the Rust on the generated families; `Lexer.filter/metrics/len` are the fields
  of the lexer model.  Unbounded: any grammar, scanner, filter table, lexer
  state, fuel, world.
-/
import TephraModel.Run
import TephraProofs.Frame
import TephraProofs.WorldFrame
import TephraProofs.Transparent
import TephraProofs.BracketRefine

namespace Tephra.Props
open Tephra

/-- Whatever `a` is (wrapped in `maybe`, `unrecoverable`, `raw`, … or not), the
sibling `b` runs under the same context value `ctx`. -/
theorem C09_sibling_context (R : RunEnv) (n : Nat) (a b : G) (lx lx1 lx2 : Lx) (ctx : Ctx)
    (W W1 W2 : World) (v v2 : Val)
    (h : run R n a lx ctx W = (.ok v lx1, W1))
    (hb : run R n b lx1 ctx W1 = (.ok v2 lx2, W2)) :
    run R (n + 1) (.both a b) lx ctx W = (.ok (.pair v v2) lx2, W2) := by
  simp [run, h, hb]

/-- …and when the sibling fails under that context, its error is the result. -/
theorem C09_sibling_context_err (R : RunEnv) (n : Nat) (a b : G) (lx lx1 : Lx) (ctx : Ctx)
    (W W1 W2 : World) (v : Val) (e : PErr)
    (h : run R n a lx ctx W = (.ok v lx1, W1))
    (hb : run R n b lx1 ctx W1 = (.err e, W2)) :
    run R (n + 1) (.both a b) lx ctx W = (.err e, W2) := by
  simp [run, h, hb]

theorem C09_unfiltered_restores (R : RunEnv) (n : Nat) (a : G) (lx lx2 : Lx) (ctx : Ctx) (W W2 : World) (v : Val)
    (h : run R n a (lx.setFilter R.E none).2 ctx W = (.ok v lx2, W2)) :
    run R (n + 1) (.unfiltered a) lx ctx W = (.ok v (lx2.setFilter R.E lx.filter).2, W2) := by
  simp [run, Lexer.setFilter] at h ⊢
  simp [h]

theorem C09_set_filter_installs (E : LexEnv Nat Tok) (lx : Lx) (f : Option Nat) :
    (lx.setFilter E f).1 = lx.filter := by
  simp [Lexer.setFilter]

/-! ### the interpreter-wide theorems -/

theorem C09_filter_frame (R : RunEnv) (n : Nat) (g : G) (lx : Lx) (ctx : Ctx) (W : World) (v : Val) (lx' : Lx)
    (h : (run R n g lx ctx W).1 = .ok v lx') :
    lx'.filter = lx.filter ∧ lx'.metrics = lx.metrics ∧ lx'.len = lx.len :=
  Frame.run_frame R n g lx ctx W v lx' h

/-- `both` / `left` / `right` / `center`: if the earlier siblings succeed, the
whole is computed from runs of the later ones under the *same* `ctx`. -/
theorem C09_context_by_value (R : RunEnv) (n : Nat) (a b c : G) (lx lx1 : Lx) (ctx : Ctx) (W W1 : World) (v : Val)
    (h : run R n a lx ctx W = (.ok v lx1, W1)) :
    (run R (n + 1) (.both a b) lx ctx W =
      match run R n b lx1 ctx W1 with
      | (.ok v2 lx2, W2) => (.ok (.pair v v2) lx2, W2)
      | r => r) ∧
    (run R (n + 2) (.left a b) lx ctx W =
      match run R n b lx1 ctx W1 with
      | (.ok _ lx2, W2) => (.ok v lx2, W2)
      | r => r) ∧
    (run R (n + 2) (.right a b) lx ctx W =
      match run R n b lx1 ctx W1 with
      | (.ok v2 lx2, W2) => (.ok v2 lx2, W2)
      | r => r) ∧
    (run R (n + 1) (.center a b c) lx ctx W =
      match run R n b lx1 ctx W1 with
      | (.ok v2 lx2, W2) =>
        match run R n c lx2 ctx W2 with
        | (.ok _ lx3, W3) => (.ok v2 lx3, W3)
        | r => r
      | r => r) := by
  refine ⟨?_, ?_, ?_, ?_⟩ <;> simp only [run, h]
  · rcases run R n b lx1 ctx W1 with ⟨_ | _ | _ | _, W2⟩ <;> rfl
  · rcases run R n b lx1 ctx W1 with ⟨_ | _ | _ | _, W2⟩ <;> rfl
  · rcases run R n b lx1 ctx W1 with ⟨_ | _ | _ | _, W2⟩ <;> rfl
  · rcases run R n b lx1 ctx W1 with ⟨_ | _ | _ | _, W2⟩ <;> rfl

/-- `center`: all three succeed under the one context. -/
theorem C09_sibling_context_center (R : RunEnv) (n : Nat) (a b c : G) (lx lx1 lx2 lx3 : Lx) (ctx : Ctx)
    (W W1 W2 W3 : World) (v v2 v3 : Val)
    (h : run R n a lx ctx W = (.ok v lx1, W1))
    (hb : run R n b lx1 ctx W1 = (.ok v2 lx2, W2))
    (hc : run R n c lx2 ctx W2 = (.ok v3 lx3, W3)) :
    run R (n + 1) (.center a b c) lx ctx W = (.ok v2 lx3, W3) := by
  simp [run, h, hb, hc]

theorem C09_world_frame (R : RunEnv) (n : Nat) (g : G) (lx : Lx) (ctx : Ctx) (W : World) :
    W.log <+: (run R n g lx ctx W).2.log ∧ W.probes <+: (run R n g lx ctx W).2.probes :=
  WorldFrame.run_world_prefix R n g lx ctx W


/-! ### the consequence clause: later siblings are unaffected -/

open Tephra.Transparent (CtxFree SinkOnly CF thenWith centerRest)

/-- **Sibling independence.**  Let `a` and `a'` be two earlier siblings — any two
grammars (`a'` may be `unrecoverable a`, `raw a`, `filter_with k a`,
`unfiltered a`, `maybe a`, or unrelated), even started from different lexers
and worlds — that return the same lexer `lx1` and world `W1`.  Then each of
`both`, `left`, `right`, `center` is, for `a` and for `a'`, the SAME outcome
`run R n b lx1 ctx W1` of the later sibling (a function of the returned lexer,
the combinator's own context and the returned world only), post-processed on its
value alone (`thenWith`): same error / panic, same returned lexer, same world,
same value of `b`.  For `right` the two runs are literally equal.  The lexer
`b` starts from carries the filter of the combinator's own lexer. -/
theorem C09_sibling_independent (R : RunEnv) (n : Nat) (a a' b c : G) (lx lx' lx1 : Lx) (ctx : Ctx)
    (W W' W1 : World) (v v' : Val)
    (h : run R n a lx ctx W = (.ok v lx1, W1))
    (h' : run R n a' lx' ctx W' = (.ok v' lx1, W1)) :
    (run R (n + 1) (.both a b) lx ctx W = thenWith (.pair v) (run R n b lx1 ctx W1) ∧
     run R (n + 1) (.both a' b) lx' ctx W' = thenWith (.pair v') (run R n b lx1 ctx W1)) ∧
    (run R (n + 2) (.left a b) lx ctx W = thenWith (fun _ => v) (run R n b lx1 ctx W1) ∧
     run R (n + 2) (.left a' b) lx' ctx W' = thenWith (fun _ => v') (run R n b lx1 ctx W1)) ∧
    (run R (n + 2) (.right a b) lx ctx W = run R n b lx1 ctx W1 ∧
     run R (n + 2) (.right a' b) lx' ctx W' = run R n b lx1 ctx W1) ∧
    (run R (n + 1) (.center a b c) lx ctx W = centerRest R n b c lx1 ctx W1 ∧
     run R (n + 1) (.center a' b c) lx' ctx W' = centerRest R n b c lx1 ctx W1) ∧
    (run R (n + 1) (.both a b) lx ctx W).2 = (run R (n + 1) (.both a' b) lx' ctx W').2 ∧
    lx1.filter = lx.filter ∧ lx1.filter = lx'.filter :=
  ⟨⟨Transparent.both_factor R n a b lx lx1 ctx W W1 v h, Transparent.both_factor R n a' b lx' lx1 ctx W' W1 v' h'⟩,
   ⟨Transparent.left_factor R n a b lx lx1 ctx W W1 v h, Transparent.left_factor R n a' b lx' lx1 ctx W' W1 v' h'⟩,
   ⟨Transparent.right_factor R n a b lx lx1 ctx W W1 v h, Transparent.right_factor R n a' b lx' lx1 ctx W' W1 v' h'⟩,
   ⟨Transparent.center_factor R n a b c lx lx1 ctx W W1 v h,
    Transparent.center_factor R n a' b c lx' lx1 ctx W' W1 v' h'⟩,
   by rw [Transparent.both_factor R n a b lx lx1 ctx W W1 v h, Transparent.both_factor R n a' b lx' lx1 ctx W' W1 v' h',
        Transparent.thenWith_snd, Transparent.thenWith_snd],
   (Frame.run_frame R n a lx ctx W v lx1 (by rw [h])).1,
   (Frame.run_frame R n a' lx' ctx W' v' lx1 (by rw [h'])).1⟩

/-- If the earlier sibling does not succeed the later one is not run. -/
theorem C09_sibling_not_run (R : RunEnv) (n : Nat) (a b : G) (lx : Lx) (ctx : Ctx) (W : World)
    (h : ∀ v lx1, (run R n a lx ctx W).1 ≠ .ok v lx1) :
    run R (n + 1) (.both a b) lx ctx W = run R n a lx ctx W :=
  Transparent.both_stop R n a b lx ctx W h

/-- **Context independence.**  `run` consults the context only in `sendError`
(`recover*`, `bracket*`, `list*`) and in `probe`; a returned error is never
decorated with it.  Hence for a context-insensitive grammar (`CtxFree`: no
`probe`; `recover*` / `bracket*` / `list*` only below `maybe` /
`unrecoverable`) the run — result, returned lexer, world, error — does not
depend on the context at all, whatever the outcome. -/
theorem C09_context_independent (R : RunEnv) (n : Nat) (g : G) (hg : CtxFree g) (lx : Lx) (ctx ctx' : Ctx)
    (W : World) : run R n g lx ctx W = run R n g lx ctx' W :=
  Transparent.run_ctxFree R n g hg lx ctx ctx' W

/-- …and a probe-free grammar (`SinkOnly`) depends on the context only through
the presence of a sink: two sink-less contexts (different chains, locks) give the
same run. -/
theorem C09_context_sink_only (R : RunEnv) (n : Nat) (g : G) (hg : SinkOnly g) (lx : Lx) (ctx ctx' : Ctx)
    (W : World) (h : ctx.sink = false) (h' : ctx'.sink = false) : run R n g lx ctx W = run R n g lx ctx' W :=
  Transparent.run_sinkOnly R n g hg lx ctx ctx' W h h'

/-- `unrecoverable a` is `a` for context-insensitive `a`: with the exact fuel
offset (the wrapper costs one unit), and with the same fuel on both sides as
soon as the fuel suffices for `a`.  Success is not needed: errors, panics agree
too. -/
theorem C09_unrecoverable_transparent (R : RunEnv) (n : Nat) (a : G) (ha : CtxFree a) (lx : Lx) (ctx : Ctx)
    (W : World) :
    run R (n + 1) (.unrecoverable a) lx ctx W = run R n a lx ctx W ∧
    ((run R n a lx ctx W).1 ≠ .fuel → ∀ m, n + 1 ≤ m → run R m (.unrecoverable a) lx ctx W = run R m a lx ctx W) :=
  ⟨Transparent.unrecoverable_eq R n a ha lx ctx W, Transparent.unrecoverable_same_fuel R n a ha lx ctx W⟩

theorem C09_raw_transparent (R : RunEnv) (n : Nat) (a : G) (ha : CtxFree a) (lx : Lx) (ctx : Ctx) (W : World) :
    run R (n + 1) (.raw a) lx ctx W = run R n a lx ctx W ∧
    ((run R n a lx ctx W).1 ≠ .fuel → ∀ m, n + 1 ≤ m → run R m (.raw a) lx ctx W = run R m a lx ctx W) :=
  ⟨Transparent.raw_eq R n a ha lx ctx W, Transparent.raw_same_fuel R n a ha lx ctx W⟩

/-- Without a sink, `unrecoverable` is the identity on EVERY grammar and `raw`
on every probe-free grammar. -/
theorem C09_wrappers_transparent_nosink (R : RunEnv) (n : Nat) (a : G) (lx : Lx) (ctx : Ctx) (W : World)
    (h : ctx.sink = false) :
    run R (n + 1) (.unrecoverable a) lx ctx W = run R n a lx ctx W ∧
    (SinkOnly a → run R (n + 1) (.raw a) lx ctx W = run R n a lx ctx W) :=
  ⟨Transparent.unrecoverable_eq_nosink R n a lx ctx W h, fun ha => Transparent.raw_eq_nosink R n a ha lx ctx W h⟩

/-- **Wrapped sibling = plain sibling.**  For context-insensitive `a` and EVERY
later sibling `b`, `c` (context-sensitive ones included), once the fuel `n`
suffices for `a`: with any fuel `m ≥ n + 1` for the first parser, the
sequencing combinators give identical results and worlds whether the first
parser is `a`, `unrecoverable a` or `raw a`. -/
theorem C09_wrapped_sibling_same (R : RunEnv) (n : Nat) (a : G) (ha : CtxFree a) (lx : Lx) (ctx : Ctx) (W : World)
    (hne : (run R n a lx ctx W).1 ≠ .fuel) (b c : G) (m : Nat) (hm : n + 1 ≤ m) (w : G)
    (hw : w = .unrecoverable a ∨ w = .raw a) :
    run R (m + 1) (.both w b) lx ctx W = run R (m + 1) (.both a b) lx ctx W ∧
    run R (m + 2) (.left w b) lx ctx W = run R (m + 2) (.left a b) lx ctx W ∧
    run R (m + 2) (.right w b) lx ctx W = run R (m + 2) (.right a b) lx ctx W ∧
    run R (m + 1) (.center w b c) lx ctx W = run R (m + 1) (.center a b c) lx ctx W := by
  apply Transparent.seq_congr
  rcases hw with rfl | rfl
  · exact Transparent.unrecoverable_same_fuel R n a ha lx ctx W hne m hm
  · exact Transparent.raw_same_fuel R n a ha lx ctx W hne m hm

/-- The fuel offset made explicit, no fuel hypothesis: the wrapped first parser
gets `n`, the later sibling `n + 1`; `unrecoverable` and `raw` agree exactly. -/
theorem C09_wrapped_sibling_offset (R : RunEnv) (n : Nat) (a : G) (ha : CtxFree a) (lx : Lx) (ctx : Ctx)
    (W : World) (b : G) :
    run R (n + 2) (.both (.unrecoverable a) b) lx ctx W = run R (n + 2) (.both (.raw a) b) lx ctx W ∧
    ∀ v lx1 W1, run R n a lx ctx W = (.ok v lx1, W1) →
      run R (n + 2) (.both (.unrecoverable a) b) lx ctx W = thenWith (.pair v) (run R (n + 1) b lx1 ctx W1) ∧
      run R (n + 1) (.both a b) lx ctx W = thenWith (.pair v) (run R n b lx1 ctx W1) := by
  have hu := Transparent.unrecoverable_eq R n a ha lx ctx W
  have hr := Transparent.raw_eq R n a ha lx ctx W
  refine ⟨(Transparent.seq_congr R (n + 1) _ _ lx ctx W (hu.trans hr.symm) b b).1, fun v lx1 W1 h => ⟨?_, ?_⟩⟩
  · exact Transparent.both_factor R (n + 1) _ b lx lx1 ctx W W1 v (hu.trans h)
  · exact Transparent.both_factor R n a b lx lx1 ctx W W1 v h

/-- **`maybe`.**  `maybe a` runs `a` without the sink.  If that succeeds, `maybe a`
returns the same lexer and world (value wrapped in `some`) and the later
sibling of a `both` runs from them under the combinator's own context (sink
included).  If it fails, `maybe a` succeeds with `none` and returns the ORIGINAL
lexer (cursor, filter, buffer: the very value it was given) and the world left
by the failed attempt, whose sink log is the one before (probe log, recovery
flags and registered closures may have changed); the later sibling runs from
these.  For context-insensitive `a` the sink-less run is the run under the
combinator's context. -/
theorem C09_maybe_transparent (R : RunEnv) (n : Nat) (a : G) (lx : Lx) (ctx : Ctx) (W : World) :
    (∀ v lx1 W1, run R n a lx ctx.withoutSink W = (.ok v lx1, W1) →
      run R (n + 1) (.maybe a) lx ctx W = (.ok (.some v) lx1, W1) ∧
      ∀ b, run R (n + 2) (.both (.maybe a) b) lx ctx W = thenWith (.pair (.some v)) (run R (n + 1) b lx1 ctx W1)) ∧
    (∀ e W1, run R n a lx ctx.withoutSink W = (.err e, W1) →
      run R (n + 1) (.maybe a) lx ctx W = (.ok .none lx, W1) ∧ W1.log = W.log ∧
      ∀ b, run R (n + 2) (.both (.maybe a) b) lx ctx W = thenWith (.pair .none) (run R (n + 1) b lx ctx W1)) ∧
    (CtxFree a → run R n a lx ctx.withoutSink W = run R n a lx ctx W) := by
  refine ⟨fun v lx1 W1 h => ?_, fun e W1 h => ?_, fun ha => Transparent.run_ctxFree R n a ha lx _ _ W⟩
  · have h1 := Transparent.maybe_ok R n a lx lx1 ctx W W1 v h
    exact ⟨h1, fun b => Transparent.both_factor R (n + 1) _ b lx lx1 ctx W W1 _ h1⟩
  · have h1 := Transparent.maybe_err R n a lx ctx W W1 e h
    exact ⟨h1.1, h1.2, fun b => Transparent.both_factor R (n + 1) _ b lx lx ctx W W1 _ h1.1⟩

/-- `maybe`, all outcomes (a panic or exhausted fuel of `a` is passed on). -/
theorem C09_maybe_run (R : RunEnv) (n : Nat) (a : G) (lx : Lx) (ctx : Ctx) (W : World) :
    run R (n + 1) (.maybe a) lx ctx W =
      match run R n a lx ctx.withoutSink W with
      | (.ok v lx1, W1) => (.ok (.some v) lx1, W1)
      | (.err _, W1) => (.ok .none lx, W1)
      | r => r :=
  Transparent.maybe_run R n a lx ctx W

/-- The naive reading "if `a` succeeds under the combinator's context then
`maybe a` returns the same lexer and world" — FALSE for context-sensitive `a`:
`a` is run without the sink, so a `recover` inside it hands its error back
(and `maybe` returns `none` and the original lexer) where `a` alone would have
reported the error and recovered; a `probe` reports differently. -/
def C09_maybe_naive_statement : Prop :=
  ∀ (R : RunEnv) (n : Nat) (a : G) (lx lx1 : Lx) (ctx : Ctx) (W W1 : World) (v : Val),
    run R n a lx ctx W = (.ok v lx1, W1) → run R (n + 1) (.maybe a) lx ctx W = (.ok (.some v) lx1, W1)

/-- Witness: `a = probe 0` under a context with a sink (any lexer). -/
theorem C09_maybe_naive_statement_false : ¬ C09_maybe_naive_statement := by
  intro h
  let R : RunEnv := ⟨BracketRefine.Witness.tabEnv [], []⟩
  have h1 := h R 1 (.probe 0) default default ⟨true, [], false⟩ World.init
    (run R 1 (.probe 0) default ⟨true, [], false⟩ World.init).2 .unit (by simp [run, sendError])
  have h2 := congrArg (fun r => r.2.log.length) h1
  simp [run, sendError, Ctx.withoutSink, World.init] at h2

/-- The corrected statement for arbitrary `a`: under a sink-less context, or for
context-insensitive `a`, success of `a` under the combinator's context is
success of `maybe a` with the same lexer and world. -/
theorem C09_maybe_success_same (R : RunEnv) (n : Nat) (a : G) (lx lx1 : Lx) (ctx : Ctx) (W W1 : World) (v : Val)
    (hc : CtxFree a ∨ ctx.sink = false)
    (h : run R n a lx ctx W = (.ok v lx1, W1)) : run R (n + 1) (.maybe a) lx ctx W = (.ok (.some v) lx1, W1) := by
  apply Transparent.maybe_ok
  rcases hc with ha | hs
  · rw [Transparent.run_ctxFree R n a ha lx _ ctx W, h]
  · rw [Transparent.withoutSink_of_nosink ctx hs, h]

/-- **Filter scopes, all outcomes.**  `filter_with k a` / `unfiltered a` run `a`
on a copy of the lexer with the filter replaced; on success the filter of the
caller's lexer is re-installed on the returned lexer, any other outcome (error,
panic) is passed on unchanged — an error carries no lexer, so nothing of the
re-filtered lexer escapes. -/
theorem C09_filter_scope (R : RunEnv) (n : Nat) (k : Nat) (a : G) (lx : Lx) (ctx : Ctx) (W : World) :
    (run R (n + 1) (.filterWith k a) lx ctx W =
      match run R n a (lx.setFilter R.E (some k)).2 ctx W with
      | (.ok v lx2, W2) => (.ok v (lx2.setFilter R.E lx.filter).2, W2)
      | r => r) ∧
    (run R (n + 1) (.unfiltered a) lx ctx W =
      match run R n a (lx.setFilter R.E none).2 ctx W with
      | (.ok v lx2, W2) => (.ok v (lx2.setFilter R.E lx.filter).2, W2)
      | r => r) :=
  ⟨Transparent.filterWith_run R n k a lx ctx W, Transparent.unfiltered_run R n a lx ctx W⟩

/-- **Filter scopes, failure.**  When the wrapped parser fails, the scope fails
with the same error and world, and an alternative sibling (`either`) is run from
the caller's own lexer value `lx` — filter, cursor and buffer untouched — under
the same context. -/
theorem C09_filter_scope_failure (R : RunEnv) (n : Nat) (k : Nat) (a b : G) (lx : Lx) (ctx : Ctx) (W W1 : World)
    (e : PErr) :
    (run R n a (lx.setFilter R.E (some k)).2 ctx W = (.err e, W1) →
      run R (n + 1) (.filterWith k a) lx ctx W = (.err e, W1) ∧
      run R (n + 2) (.either (.filterWith k a) b) lx ctx W = run R (n + 1) b lx ctx W1) ∧
    (run R n a (lx.setFilter R.E none).2 ctx W = (.err e, W1) →
      run R (n + 1) (.unfiltered a) lx ctx W = (.err e, W1) ∧
      run R (n + 2) (.either (.unfiltered a) b) lx ctx W = run R (n + 1) b lx ctx W1) := by
  constructor <;> intro h
  · have h1 : run R (n + 1) (.filterWith k a) lx ctx W = (.err e, W1) := by
      rw [Transparent.filterWith_run, h]
    refine ⟨h1, ?_⟩
    rw [run]; simp only [h1]
  · have h1 : run R (n + 1) (.unfiltered a) lx ctx W = (.err e, W1) := by
      rw [Transparent.unfiltered_run, h]
    refine ⟨h1, ?_⟩
    rw [run]; simp only [h1]

/-- Non-vacuity of `C09_filter_frame`: `filter_with` around `empty` succeeds and
the filter `some 7` of the incoming lexer is back in force although the body
ran under `some 3`. -/
example (R : RunEnv) (lx : Lx) (h : lx.filter = some 7) (ctx : Ctx) (W : World) :
    ∃ v lx', (run R 2 (.filterWith 3 .empty) lx ctx W).1 = .ok v lx' ∧ lx'.filter = some 7 := by
  refine ⟨.unit, ((lx.setFilter R.E (some 3)).2.setFilter R.E lx.filter).2, by simp [run], ?_⟩
  rw [LexInv.setFilter_filter, h]

/-! ### non-vacuity and tightness of the consequence clause -/
section

/-- a parser that fails on every lexer (`pred (k0 ∧ ¬k0)`) -/
private def failG : G := .pred (.and (.var 0) (.not (.var 0)))

private theorem failG_fails (R : RunEnv) (n : Nat) (lx : Lx) (ctx : Ctx) (W : World) :
    ∃ e, run R (n + 1) failG lx ctx W = (.err e, W) := by
  simp only [run, failG, PE.eval, Bool.and_not_self]
  split <;> exact ⟨_, rfl⟩

/-- a table scanner over the three one-byte tokens `1 2 3`, no filter -/
private def nvR : RunEnv := ⟨BracketRefine.Witness.tabEnv [1, 2, 3], []⟩
private def nvLx : Lx := LexIter.fresh 0 ⟨.lf, 4⟩ 3 none
/-- a context with a sink and one transform -/
private def nvCtx : Ctx := ⟨true, [7], false⟩
/-- `recover_option(one(5), before(2))`: context-sensitive -/
private def nvRec : G := .recover 0 0 (.one 5) (.before 2)

private def kindOf : RRes → Nat
  | .ok .. => 0 | .err _ => 1 | .panic => 2 | .fuel => 3
private def cursorOf : RRes → Nat
  | .ok _ lx => lx.cursor.byte | _ => 0

private theorem nv_one (n : Nat) (ctx : Ctx) (W : World) :
    run nvR (n + 1) (.one 1) nvLx ctx W = (.ok (.tok ⟨1, 0⟩) (nvLx.next nvR.E).2, W) := by
  have h : (nvLx.next nvR.E).1 = some ⟨1, 0⟩ := by decide +kernel
  simp only [run]
  rcases hx : nvLx.next nvR.E with ⟨o, l⟩
  rw [hx] at h
  simp only at h
  subst h
  simp

/-- the syntactic classes are inhabited as intended -/
example : CtxFree (.both (.one 1) (.maybe nvRec)) ∧ CtxFree (.stabilize (.ctxPushed 3 (.raw (.seq [1, 2])))) ∧
    ¬ CtxFree nvRec ∧ SinkOnly nvRec ∧ ¬ SinkOnly (.probe 0) := by decide

/-- `C09_sibling_independent`, hypotheses satisfiable for every environment:
`empty`, `unrecoverable empty`, `raw empty`, `maybe empty` all return the lexer
and world they were given. -/
example (R : RunEnv) (lx : Lx) (ctx : Ctx) (W : World) :
    run R 2 .empty lx ctx W = (.ok .unit lx, W) ∧ run R 2 (.unrecoverable .empty) lx ctx W = (.ok .unit lx, W) ∧
    run R 2 (.raw .empty) lx ctx W = (.ok .unit lx, W) ∧ run R 2 (.maybe .empty) lx ctx W = (.ok (.some .unit) lx, W) := by
  simp [run]

/-- …and on the table scanner, with a token consumed: `one 1` and `raw (one 1)`
return the same lexer and world under the sink context, so (by
`C09_sibling_independent`) a context-sensitive later sibling `nvRec` does the
same after both. -/
example (W : World) :
    run nvR 3 (.both (.one 1) nvRec) nvLx nvCtx W = run nvR 3 (.both (.raw (.one 1)) nvRec) nvLx nvCtx W := by
  have h := nv_one 1 nvCtx W
  have h' : run nvR 2 (.raw (.one 1)) nvLx nvCtx W = (.ok (.tok ⟨1, 0⟩) (nvLx.next nvR.E).2, W) := by
    rw [run]; exact nv_one 0 nvCtx.rawCtx W
  have := C09_sibling_independent nvR 2 (.one 1) (.raw (.one 1)) nvRec .empty nvLx nvLx _ nvCtx W W W _ _ h h'
  rw [this.1.1, this.1.2]

/-- `C09_wrapped_sibling_same`, hypotheses satisfiable (`one 1` is
context-insensitive and succeeds with fuel 1), later sibling context-sensitive. -/
example (W : World) (m : Nat) (hm : 2 ≤ m) :
    run nvR (m + 1) (.both (.unrecoverable (.one 1)) nvRec) nvLx nvCtx W =
      run nvR (m + 1) (.both (.one 1) nvRec) nvLx nvCtx W :=
  (C09_wrapped_sibling_same nvR 1 (.one 1) rfl nvLx nvCtx W (by rw [nv_one]; simp) nvRec .empty m hm _
    (Or.inl rfl)).1

/-- …and the later sibling really consults the context there: it reports to the
sink with the transform `7` applied, and recovers. -/
example : (run nvR 6 (.both (.unrecoverable (.one 1)) nvRec) nvLx nvCtx World.init).2.log.map (·.trail) = [[7]] ∧
    kindOf (run nvR 6 (.both (.unrecoverable (.one 1)) nvRec) nvLx nvCtx World.init).1 = 0 := by decide +kernel

/-- Tightness: for the context-sensitive `nvRec` the wrappers are NOT
transparent under a sink.  Alone it reports (trail `[7]`) and recovers to byte 1;
`unrecoverable` makes it fail without a report; `raw` makes it report with the
empty trail. -/
example :
    (kindOf (run nvR 4 nvRec nvLx nvCtx World.init).1 = 0 ∧ cursorOf (run nvR 4 nvRec nvLx nvCtx World.init).1 = 1 ∧
      (run nvR 4 nvRec nvLx nvCtx World.init).2.log.map (·.trail) = [[7]]) ∧
    (kindOf (run nvR 5 (.unrecoverable nvRec) nvLx nvCtx World.init).1 = 1 ∧
      (run nvR 5 (.unrecoverable nvRec) nvLx nvCtx World.init).2.log = []) ∧
    (kindOf (run nvR 5 (.raw nvRec) nvLx nvCtx World.init).1 = 0 ∧
      (run nvR 5 (.raw nvRec) nvLx nvCtx World.init).2.log.map (·.trail) = [[]]) := by decide +kernel

/-- Tightness for `probe` (any environment): under a sink `probe` reports,
under `unrecoverable` it does not. -/
example (R : RunEnv) (lx : Lx) (W : World) :
    (run R 1 (.probe 0) lx ⟨true, [], false⟩ W).2.log = W.log ++ [mkErr (.probe 0)] ∧
    (run R 2 (.unrecoverable (.probe 0)) lx ⟨true, [], false⟩ W).2.log = W.log := by
  simp [run, sendError, Ctx.withoutSink, Ctx.apply, mkErr]

/-- `C09_maybe_transparent`: both hypotheses are satisfiable (any environment). -/
example (R : RunEnv) (lx : Lx) (ctx : Ctx) (W : World) :
    (∃ v lx1 W1, run R 1 .empty lx ctx.withoutSink W = (.ok v lx1, W1)) ∧
    (∃ e W1, run R 1 failG lx ctx.withoutSink W = (.err e, W1)) :=
  ⟨⟨.unit, lx, W, by simp [run]⟩, by obtain ⟨e, h⟩ := failG_fails R 0 lx ctx.withoutSink W; exact ⟨e, W, h⟩⟩

/-- …so after a failed `maybe` the later sibling starts from the original lexer:
`both (maybe failG) (probe 1)` shows the lexer it was given to the probe. -/
example (R : RunEnv) (lx : Lx) (ctx : Ctx) (W : World) :
    run R 3 (.both (.maybe failG) (.probe 1)) lx ctx W = thenWith (.pair .none) (run R 2 (.probe 1) lx ctx W) := by
  obtain ⟨e, h⟩ := failG_fails R 0 lx ctx.withoutSink W
  exact ((C09_maybe_transparent R 1 failG lx ctx W).2.1 e W h).2.2 _

/-- The recover witness against the naive `maybe` statement, on the table
scanner: `nvRec` alone succeeds at byte 1 with one report; `maybe nvRec`
succeeds at byte 0 (the original lexer) with none. -/
example :
    (kindOf (run nvR 4 nvRec nvLx nvCtx World.init).1 = 0 ∧ cursorOf (run nvR 4 nvRec nvLx nvCtx World.init).1 = 1 ∧
      (run nvR 4 nvRec nvLx nvCtx World.init).2.log.length = 1) ∧
    (kindOf (run nvR 5 (.maybe nvRec) nvLx nvCtx World.init).1 = 0 ∧
      cursorOf (run nvR 5 (.maybe nvRec) nvLx nvCtx World.init).1 = 0 ∧
      (run nvR 5 (.maybe nvRec) nvLx nvCtx World.init).2.log.length = 0 ∧
      (run nvR 5 (.maybe nvRec) nvLx nvCtx World.init).2.specs.length = 1) := by decide +kernel

/-- `C09_filter_scope_failure`: hypotheses satisfiable (any environment). -/
example (R : RunEnv) (lx : Lx) (ctx : Ctx) (W : World) :
    ∃ e, run R 1 failG (lx.setFilter R.E (some 3)).2 ctx W = (.err e, W) ∧
      run R 3 (.either (.filterWith 3 failG) (.probe 1)) lx ctx W = run R 2 (.probe 1) lx ctx W := by
  obtain ⟨e, h⟩ := failG_fails R 0 (lx.setFilter R.E (some 3)).2 ctx W
  exact ⟨e, h, ((C09_filter_scope_failure R 1 3 failG (.probe 1) lx ctx W W e).1 h).2⟩

end

end Tephra.Props
