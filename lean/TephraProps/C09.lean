/-
  C09 — scoped combinators leave the surrounding parse configuration intact.

  English.  The parse configuration surrounding a parser is (a) the lexer's
  token filter, column metrics and text length, (b) the error context, (c) what
  has already been reported.

  * `C09_filter_frame`: for EVERY grammar of the combinator family (all
    constructors of `G`: primitives, joins, alternatives, options, repetitions,
    `filter_with` / `unfiltered`, `sub`, `spanned`, `text`, `recover*`,
    `stabilize`, `bracket*`, `list*`, `up_to`, context operations), every fuel,
    lexer, context and world: when the run returns successfully, the lexer it
    returns has the filter, the metrics and the length of the lexer it was
    given.  In particular after a filter-scoping combinator returns the filter
    is the one in force before, however the wrapped parser ended (by success of
    an inner `maybe`, a recovery, a bracket match, …).
  * `C09_context_by_value`: a context is a value; `both`, `left`, `right`,
    `center` run every one of their parsers with exactly the context the
    combinator was given, whatever the earlier siblings did with theirs
    (`unrecoverable`, `raw`, pushes, locks).
  * `C09_world_frame`: a run never removes or rewrites anything already
    reported: the sink log and the probe log before the run are prefixes of the
    logs after it (for every grammar and outcome, failure and panic included).
  * The interim theorems (sibling context of `both`, `unfiltered` re-installs
    the replaced filter) are kept.

  Lean: `run` is the model of the combinators (TephraModel.Run), checked against
  the Rust on the generated families; `Lexer.filter/metrics/len` are the fields
  of the lexer model.  Unbounded: any grammar, scanner, filter table, lexer
  state, fuel, world.
-/
import TephraModel.Run
import TephraProofs.Frame
import TephraProofs.WorldFrame

namespace Tephra.Props
open Tephra

/-- Whatever `a` is (wrapped in `maybe`, `unrecoverable`, `raw`, … or not), the
sibling `b` runs under the same context value `ctx`. -/
theorem C09_sibling_context (R : RunEnv) (n : Nat) (a b : G) (lx lx1 lx2 : Lx) (ctx : Ctx)
    (W W1 W2 : World) (v v2 : Val)
    (h : run R n a lx ctx W = (.ok v lx1, W1))
    (hb : run R n b lx1 ctx W1 = (.ok v2 lx2, W2)) :
    run R (n + 1) (.both a b) lx ctx W = (.ok (.pair v v2) lx2, W2) := by
  simp [run, h, hb]

/-- …and when the sibling fails under that context, its error is the result. -/
theorem C09_sibling_context_err (R : RunEnv) (n : Nat) (a b : G) (lx lx1 : Lx) (ctx : Ctx)
    (W W1 W2 : World) (v : Val) (e : PErr)
    (h : run R n a lx ctx W = (.ok v lx1, W1))
    (hb : run R n b lx1 ctx W1 = (.err e, W2)) :
    run R (n + 1) (.both a b) lx ctx W = (.err e, W2) := by
  simp [run, h, hb]

theorem C09_unfiltered_restores (R : RunEnv) (n : Nat) (a : G) (lx lx2 : Lx) (ctx : Ctx) (W W2 : World) (v : Val)
    (h : run R n a (lx.setFilter R.E none).2 ctx W = (.ok v lx2, W2)) :
    run R (n + 1) (.unfiltered a) lx ctx W = (.ok v (lx2.setFilter R.E lx.filter).2, W2) := by
  simp [run, Lexer.setFilter] at h ⊢
  simp [h]

theorem C09_set_filter_installs (E : LexEnv Nat Tok) (lx : Lx) (f : Option Nat) :
    (lx.setFilter E f).1 = lx.filter := by
  simp [Lexer.setFilter]

/-! ### the interpreter-wide theorems -/

theorem C09_filter_frame (R : RunEnv) (n : Nat) (g : G) (lx : Lx) (ctx : Ctx) (W : World) (v : Val) (lx' : Lx)
    (h : (run R n g lx ctx W).1 = .ok v lx') :
    lx'.filter = lx.filter ∧ lx'.metrics = lx.metrics ∧ lx'.len = lx.len :=
  Frame.run_frame R n g lx ctx W v lx' h

/-- `both` / `left` / `right` / `center`: if the earlier siblings succeed, the
whole is computed from runs of the later ones under the *same* `ctx`. -/
theorem C09_context_by_value (R : RunEnv) (n : Nat) (a b c : G) (lx lx1 : Lx) (ctx : Ctx) (W W1 : World) (v : Val)
    (h : run R n a lx ctx W = (.ok v lx1, W1)) :
    (run R (n + 1) (.both a b) lx ctx W =
      match run R n b lx1 ctx W1 with
      | (.ok v2 lx2, W2) => (.ok (.pair v v2) lx2, W2)
      | r => r) ∧
    (run R (n + 2) (.left a b) lx ctx W =
      match run R n b lx1 ctx W1 with
      | (.ok _ lx2, W2) => (.ok v lx2, W2)
      | r => r) ∧
    (run R (n + 2) (.right a b) lx ctx W =
      match run R n b lx1 ctx W1 with
      | (.ok v2 lx2, W2) => (.ok v2 lx2, W2)
      | r => r) ∧
    (run R (n + 1) (.center a b c) lx ctx W =
      match run R n b lx1 ctx W1 with
      | (.ok v2 lx2, W2) =>
        match run R n c lx2 ctx W2 with
        | (.ok _ lx3, W3) => (.ok v2 lx3, W3)
        | r => r
      | r => r) := by
  refine ⟨?_, ?_, ?_, ?_⟩ <;> simp only [run, h]
  · rcases run R n b lx1 ctx W1 with ⟨_ | _ | _ | _, W2⟩ <;> rfl
  · rcases run R n b lx1 ctx W1 with ⟨_ | _ | _ | _, W2⟩ <;> rfl
  · rcases run R n b lx1 ctx W1 with ⟨_ | _ | _ | _, W2⟩ <;> rfl
  · rcases run R n b lx1 ctx W1 with ⟨_ | _ | _ | _, W2⟩ <;> rfl

/-- `center`: all three succeed under the one context. -/
theorem C09_sibling_context_center (R : RunEnv) (n : Nat) (a b c : G) (lx lx1 lx2 lx3 : Lx) (ctx : Ctx)
    (W W1 W2 W3 : World) (v v2 v3 : Val)
    (h : run R n a lx ctx W = (.ok v lx1, W1))
    (hb : run R n b lx1 ctx W1 = (.ok v2 lx2, W2))
    (hc : run R n c lx2 ctx W2 = (.ok v3 lx3, W3)) :
    run R (n + 1) (.center a b c) lx ctx W = (.ok v2 lx3, W3) := by
  simp [run, h, hb, hc]

theorem C09_world_frame (R : RunEnv) (n : Nat) (g : G) (lx : Lx) (ctx : Ctx) (W : World) :
    W.log <+: (run R n g lx ctx W).2.log ∧ W.probes <+: (run R n g lx ctx W).2.probes :=
  WorldFrame.run_world_prefix R n g lx ctx W

/-- Non-vacuity of `C09_filter_frame`: `filter_with` around `empty` succeeds and
the filter `some 7` of the incoming lexer is back in force although the body
ran under `some 3`. -/
example (R : RunEnv) (lx : Lx) (h : lx.filter = some 7) (ctx : Ctx) (W : World) :
    ∃ v lx', (run R 2 (.filterWith 3 .empty) lx ctx W).1 = .ok v lx' ∧ lx'.filter = some 7 := by
  refine ⟨.unit, ((lx.setFilter R.E (some 3)).2.setFilter R.E lx.filter).2, by simp [run], ?_⟩
  rw [LexInv.setFilter_filter, h]

end Tephra.Props
