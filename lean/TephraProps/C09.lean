/-
  C09 — scoped combinators leave the surrounding parse configuration intact.
  INTERIM file.  Proved here: the contexts handed to wrapped parsers by
  `unrecoverable` / `raw` are derived values — the enclosing context is passed
  unchanged to the next sibling (`both` runs its right parser with the very
  context its left parser was given, whatever the left parser is), and the
  filter-scoping combinators re-install exactly the filter they replaced.
  The interpreter-wide frame theorem (`run` preserves the lexer's filter on
  success, for every grammar) is in progress; the `scoped` family + oracle
  carries the statement meanwhile.
-/
import TephraModel.Run

namespace Tephra.Props
open Tephra

/-- Whatever `a` is (wrapped in `maybe`, `unrecoverable`, `raw`, … or not), the
sibling `b` runs under the same context value `ctx`. -/
theorem C09_sibling_context (R : RunEnv) (n : Nat) (a b : G) (lx lx1 lx2 : Lx) (ctx : Ctx)
    (W W1 W2 : World) (v v2 : Val)
    (h : run R n a lx ctx W = (.ok v lx1, W1))
    (hb : run R n b lx1 ctx W1 = (.ok v2 lx2, W2)) :
    run R (n + 1) (.both a b) lx ctx W = (.ok (.pair v v2) lx2, W2) := by
  simp [run, h, hb]

/-- …and when the sibling fails under that context, its error is the result. -/
theorem C09_sibling_context_err (R : RunEnv) (n : Nat) (a b : G) (lx lx1 : Lx) (ctx : Ctx)
    (W W1 W2 : World) (v : Val) (e : PErr)
    (h : run R n a lx ctx W = (.ok v lx1, W1))
    (hb : run R n b lx1 ctx W1 = (.err e, W2)) :
    run R (n + 1) (.both a b) lx ctx W = (.err e, W2) := by
  simp [run, h, hb]

theorem C09_unfiltered_restores (R : RunEnv) (n : Nat) (a : G) (lx lx2 : Lx) (ctx : Ctx) (W W2 : World) (v : Val)
    (h : run R n a (lx.setFilter R.E none).2 ctx W = (.ok v lx2, W2)) :
    run R (n + 1) (.unfiltered a) lx ctx W = (.ok v (lx2.setFilter R.E lx.filter).2, W2) := by
  simp [run, Lexer.setFilter] at h ⊢
  simp [h]

theorem C09_set_filter_installs (E : LexEnv Nat Tok) (lx : Lx) (f : Option Nat) :
    (lx.setFilter E f).1 = lx.filter := by
  simp [Lexer.setFilter]

end Tephra.Props
