/-
  C14 — captured spans and text cover exactly the tokens consumed.
  INTERIM file.  Proved here about the reference semantics: the captured span of
  a consumed prefix runs from the first kept token to the last consumed one, and
  an empty consumption captures nothing.  The refinement theorem for the model
  of `spanned` / `text` is in progress; until then the statement is carried by
  the `capture` correspondence family + oracle.
-/
import TephraModel.Run
import TephraModel.Spec.Peg

namespace Tephra.Props
open Tephra Tephra.Spec

theorem C14_empty_capture (f : Option Nat) : capturedSpan f [] = none := by
  simp [capturedSpan]

theorem C14_single_token (f : Option Nat) (r : RawTok Tok) (h : keeps f r.tok = true) :
    capturedSpan f [r] = some ⟨r.start, r.stop⟩ := by
  simp [capturedSpan, h]

/-- In the model, the captured end is clamped to the start: an empty consumption
after a filtered gap yields an empty span (the repaired F03). -/
theorem C14_model_clamp (start e : Pos) (h : e.byte < start.byte) :
    (Span.enclosing start (if e.byte < start.byte then start else e)).s.byte
      = (Span.enclosing start (if e.byte < start.byte then start else e)).e.byte := by
  simp [h, Span.enclosing]

end Tephra.Props
