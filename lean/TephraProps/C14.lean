/-
  C14 — captured spans and text cover exactly the tokens consumed.

  English.  Setting as in C06/C07: a scanner honouring `ScanOK`, the harness filter
  table (`PassOK`), and a lexer `lx` related to a state `s` of the reference
  evaluator.  Here the relation is `AbsC lx s` = `Abs lx s` (C06) plus: once the
  parse span has begun, `s.rest` is exactly the raw stream at the lexer; and every
  position the lexer holds satisfies a predicate `P` that the scanner preserves
  (`Closed`) — for `text`, `P` implies "char boundary of the source text"
  (`splitAtByte … isSome`), which is what keeps the Rust slice from panicking.
  A fresh lexer, with or without `with_filter`, is so related to the whole raw
  stream (`absC_new`, `absC_withFilter`).  The reference semantics of a capture:
  `consumed` = the raw tokens the wrapped parser passed (`s.rest` minus what is
  left); `Spec.capturedSpan s.filter consumed` runs from the first *kept* consumed
  token to the last consumed one — leading filtered tokens are not captured,
  interior ones are.

  * `C14_spanned` (PROVED): if the model of `spanned(a)` returns `Ok(Spanned{span,v})`,
    then the reference evaluator accepts `a` with a value equal to `v` up to `normVal`,
    the returned lexer is related to the reference's end state, and `span` IS
    `capturedSpan s.filter consumed`; when nothing was consumed (`capturedSpan = none`)
    the recorded span is empty (`s.byte = e.byte`; the repaired F03).
  * `C14_text` (PROVED): likewise for `text(a)`: the returned text is the slice of the
    source over the captured span, and is empty when nothing was consumed.
  * `C14_partial` (PROVED): the refinement theorem for the whole fragment
    `pegWithCap` = the C07 fragment with `spanned`/`text` anywhere (nested captures,
    captures inside repetitions, …): model `Ok(v, lx')` ⇒ the reference evaluator with
    any fuel `k ≥ 2 n` returns `ok v' s'` with `normVal v = normVal v'` (`normVal`
    replaces every captured span with `s.byte = e.byte` by `emptySpan`: the model
    reports an empty span at its position, the reference evaluator reports
    `emptySpan`; the oracle normalises both sides the same way) and `lx'` related to
    `s'`; model error ⇒ reference fails; reference out of fuel ⇒ model out of fuel;
    the model never panics (in particular `text` never slices off a boundary).
    `a` ranges over grammars of the fragment in the two theorems above.
  * `C14_statement`: the same for captures over arbitrary `Spec.supported` grammars
    without `captureOverFilterChange` — not proved: filter-changing nodes
    elsewhere in the grammar are subject to F27 (see C06).
  * The three interim theorems are kept.

  Unbounded: any scanner, text, metrics, predicate `P`, grammar of the fragment, fuel.
-/
import TephraModel.Run
import TephraModel.Spec.Peg
import TephraProofs.PegCaptureSim
import TephraProps.C07

namespace Tephra.Props
open Tephra Tephra.Spec

theorem C14_empty_capture (f : Option Nat) : capturedSpan f [] = none := by
  simp [capturedSpan]

theorem C14_single_token (f : Option Nat) (r : RawTok Tok) (h : keeps f r.tok = true) :
    capturedSpan f [r] = some ⟨r.start, r.stop⟩ := by
  simp [capturedSpan, h]

/-- In the model, the captured end is clamped to the start: an empty consumption
after a filtered gap yields an empty span (the repaired F03). -/
theorem C14_model_clamp (start e : Pos) (h : e.byte < start.byte) :
    (Span.enclosing start (if e.byte < start.byte then start else e)).s.byte
      = (Span.enclosing start (if e.byte < start.byte then start else e)).e.byte := by
  simp [h, Span.enclosing]

/-! ### the refinement theorems -/

open Tephra.PegRefine

/-- FULL statement (kept as a def, not proved; F27 applies to its filter-changing instances): captures in any
grammar of the PEG family in which no capture wraps a filter change. -/
def C14_statement : Prop :=
  ∀ (R : RunEnv) (m : Metrics) (len : Nat) (P : Pos → Prop), ScanOK R.E m len → ScanFinal R.E m → PassOK R.E →
  Closed R.E P m → (∀ p, P p → (splitAtByte R.text p.byte).isSome = true) →
  ∀ (n : Nat) (g : G) (lx : Lx) (s : PState) (ctx : Ctx) (W : World),
    Spec.supported g = true → Spec.captureOverFilterChange g = false → noAssert g = true →
    AbsC R.E m len P lx s →
    (∀ v lx', (run R n g lx ctx W).1 = .ok v lx' → ∀ k, 2 * n ≤ k →
      ∃ v' s', peg R.text k g s = .ok v' s' ∧ normVal v = normVal v' ∧ AbsC R.E m len P lx' s') ∧
    (∀ e, (run R n g lx ctx W).1 = .err e → ∀ k, 2 * n ≤ k → peg R.text k g s = .fail)

/-- PROVED: the refinement on the filter-preserving fragment with repetition and captures. -/
theorem C14_partial (R : RunEnv) (m : Metrics) (len : Nat) (P : Pos → Prop)
    (ok : ScanOK R.E m len) (hp : PassOK R.E) (hc : Closed R.E P m)
    (hP : ∀ p, P p → (splitAtByte R.text p.byte).isSome = true)
    (n : Nat) (g : G) (lx : Lx) (s : PState) (ctx : Ctx) (W : World)
    (hg : pegWithCap g = true) (a : AbsC R.E m len P lx s) :
    (∀ v lx', (run R n g lx ctx W).1 = .ok v lx' → ∀ k, 2 * n ≤ k →
      ∃ v' s', peg R.text k g s = .ok v' s' ∧ normVal v = normVal v' ∧ AbsC R.E m len P lx' s') ∧
    (∀ e, (run R n g lx ctx W).1 = .err e → ∀ k, 2 * n ≤ k → peg R.text k g s = .fail) ∧
    (∀ k, 2 * n ≤ k → peg R.text k g s = .fuel → (run R n g lx ctx W).1 = .fuel) ∧
    (run R n g lx ctx W).1 ≠ .panic := by
  have key := fun k hk => cap_sim hc ok hp hP n n (Nat.le_refl n) k hk g lx s ctx W hg a
  refine ⟨?_, ?_, ?_, ?_⟩
  · intro v lx' h k hk
    have := key k hk
    rw [h] at this
    obtain ⟨v', s', h1, h2, h3, _⟩ := this
    exact ⟨v', s', h1, h2, h3⟩
  · intro e h k hk
    have := key k hk
    rw [h] at this
    exact this
  · intro k hk h
    have := key k hk
    rw [h] at this
    cases hr : (run R n g lx ctx W).1 with
    | fuel => rfl
    | ok v lx' => rw [hr] at this; obtain ⟨_, _, h', _⟩ := this; cases h'
    | err e => rw [hr] at this; cases this
    | panic => rw [hr] at this; exact this.elim
  · intro h
    have := key (2 * n) (Nat.le_refl _)
    rw [h] at this
    exact this

/-- PROVED: the span recorded by `spanned(a)` is the captured span of the consumed tokens,
or empty when nothing was consumed. -/
theorem C14_spanned (R : RunEnv) (m : Metrics) (len : Nat) (P : Pos → Prop)
    (ok : ScanOK R.E m len) (hp : PassOK R.E) (hc : Closed R.E P m)
    (hP : ∀ p, P p → (splitAtByte R.text p.byte).isSome = true)
    (n k : Nat) (hk : 2 * n ≤ k) (a : G) (lx : Lx) (s : PState) (ctx : Ctx) (W : World)
    (hg : pegWithCap a = true) (a0 : AbsC R.E m len P lx s)
    (val : Val) (lx2 : Lx) (hrun : (run R (n + 1) (.spanned a) lx ctx W).1 = .ok val lx2) :
    ∃ sp v v' s1, val = .spanned sp v ∧ peg R.text k a s = .ok v' s1 ∧ normVal v = normVal v' ∧
      AbsC R.E m len P lx2 s1 ∧
      (match capturedSpan s.filter (s.rest.take (s.rest.length - s1.rest.length)) with
        | some sp' => sp = sp'
        | none => sp.s.byte = sp.e.byte) :=
  spanned_exact hc ok hp a0
    (fun lx1 a1 => cap_sim hc ok hp hP n n (Nat.le_refl n) k hk a lx1 s ctx W hg a1) hrun

/-- PROVED: the text returned by `text(a)` is the source slice over the captured span, or
empty when nothing was consumed. -/
theorem C14_text (R : RunEnv) (m : Metrics) (len : Nat) (P : Pos → Prop)
    (ok : ScanOK R.E m len) (hp : PassOK R.E) (hc : Closed R.E P m)
    (hP : ∀ p, P p → (splitAtByte R.text p.byte).isSome = true)
    (n k : Nat) (hk : 2 * n ≤ k) (a : G) (lx : Lx) (s : PState) (ctx : Ctx) (W : World)
    (hg : pegWithCap a = true) (a0 : AbsC R.E m len P lx s)
    (val : Val) (lx2 : Lx) (hrun : (run R (n + 1) (.text a) lx ctx W).1 = .ok val lx2) :
    ∃ mid v' s1, val = .text mid ∧ peg R.text k a s = .ok v' s1 ∧ AbsC R.E m len P lx2 s1 ∧
      (match capturedSpan s.filter (s.rest.take (s.rest.length - s1.rest.length)) with
        | some sp' => Source.sliceBytes R.text sp'.s.byte sp'.e.byte = .ok mid
        | none => mid = []) :=
  text_exact hc ok hp hP a0
    (fun lx1 a1 => cap_sim hc ok hp hP n n (Nat.le_refl n) k hk a lx1 s ctx W hg a1) hrun

/-- The C07 fragment is part of the C14 fragment. -/
theorem C14_extends_C07 : ∀ g, pegWithRep g = true → pegWithCap g = true := by
  intro g
  induction g <;> simp_all [pegWithRep, pegWithCap]

open PegRefine.Witness in
set_option maxRecDepth 8000 in
/-- Non-vacuity: on `a b` with the whitespace filter, `spanned(seq[0,1])` succeeds with the span
[0,3) (the filtered whitespace inside is covered), and `text(seq[0,1])` returns `a b`. -/
example : ScanOK EW mW 3 ∧ PassOK EW ∧ Closed EW PW mW ∧
    (∀ p, PW p → (splitAtByte RW.text p.byte).isSome = true) ∧ AbsC EW mW 3 PW lxW sW ∧
    pegWithCap (.seq [0, 1]) = true ∧
    okVal (run RW 9 (.spanned (.seq [0, 1])) lxW ctxW World.init).1 =
      some (.spanned ⟨⟨0, 0, 0⟩, ⟨3, 0, 3⟩⟩ (.toks [⟨0, 0⟩, ⟨1, 0⟩])) ∧
    okVal (run RW 9 (.text (.seq [0, 1])) lxW ctxW World.init).1 =
      some (.text [⟨97, 1, 1⟩, ⟨32, 1, 1⟩, ⟨98, 1, 1⟩]) := by
  refine ⟨scanW_ok, passW, closedW, boundaryW, absCW, rfl, ?_, ?_⟩
  · simp [okVal, run, seqLoop, lxW, ctxW, RW, EW, scanW, mW, Lexer.withFilter, Lexer.setFilter, Lexer.new,
      Lexer.bufferNext, Lexer.bufferLoop, Lexer.next, Lexer.nextLoop, Lexer.peek, Lexer.filtered,
      Lexer.peekTokenSpan, Lexer.parseSpan, Lexer.tokenSpan, Span.enclosing, Span.at_, passesMask, classOf,
      Pos.zero]
  · simp [okVal, run, seqLoop, lxW, ctxW, RW, EW, scanW, mW, Lexer.withFilter, Lexer.setFilter, Lexer.new,
      Lexer.bufferNext, Lexer.bufferLoop, Lexer.next, Lexer.nextLoop, Lexer.peek, Lexer.filtered,
      Lexer.peekTokenSpan, Lexer.parseSpan, Lexer.tokenSpan, Span.enclosing, Span.at_, passesMask, classOf,
      Pos.zero, Source.sliceBytes, splitAtByte, Nat.max]

end Tephra.Props
