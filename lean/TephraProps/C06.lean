/-
  C06 — sequencing, choice and option combinators follow ordered-choice semantics.

  English.  Fix a scanner/filter table `R.E`, column metrics `m` and a text length
  `len` such that the scanner honours its contract `ScanOK` (a produced token is
  non-empty and ends inside the text; at or past the end nothing is produced) and
  the filter table is the harness one (`PassOK`: `Spec.keeps` is defined with it).
  `Abs lx s` relates a lexer `lx` to a state `s` of the reference PEG evaluator
  `Spec.peg`: same filter; the raw tokens `s.rest` and the raw stream at the lexer's
  scanner/cursor are equal once the leading tokens the filter rejects are dropped
  (so in particular `s.view` is the filtered raw stream at the lexer, `Abs.view`);
  a lookahead buffer, if present, holds exactly the first kept token; and `s.term`
  says whether the scan chain from the lexer's position reaches the end of text.
  A fresh lexer (with or without `with_filter`) is related to the whole raw stream
  (`PegRefine.abs_new`, `abs_withFilter`) — the harness's initial state.

  * `C06_next_is_pop`, `C06_peek_shows_pop`: the two primitive bridges — `Lexer::next`
    delivers exactly what `PState.pop` delivers (same token, `token_span` = the raw
    token's span, related states; `None` iff `pop = none`), and `peek` shows that
    token and leaves a lexer related to the same state.
  * `C06_partial` (PROVED): for every grammar of the fragment `pegCore` (primitives
    `empty one any any_index seq seq_count pred end_of_text`, `left right both center
    map discard either maybe require_if cond implies antecedent consequent
    cond_implies`, `any`/`any_index` with a non-empty token list), every fuel `n`,
    related `lx`/`s`, every context and world: if the model returns `Ok(v, lx')` then
    the reference evaluator — with the same or any larger fuel — returns `ok v s'`
    with `lx'` related to `s'` (same value, same remaining filtered stream, same
    filter); if the model returns an error the reference fails; if the reference
    runs out of fuel `n` so does the model with fuel `n`; the model never panics.
  * `C06_fuel_accounting`: the converse fuel implication is false already for
    `left(empty, empty)` with fuel 2 — the model of `left` spends one unit on the
    inner `both`, the reference evaluator does not.  (An artefact of the two
    evaluators' fuel accounting, not of the Rust code; this is why the fuel clause
    of `C06_partial` is one-directional.)
  * `ScanFinal` is not needed on this fragment: a lexer whose advance was refused
    is never continued.
  * `C06_statement` — the same for every grammar `Spec.supported` accepts (adding
    `filter_with`, `unfiltered`, `sub`, captures, repetition; values compared up to
    `normVal`, the normalisation of empty captured spans the oracle applies) — is FALSE of the code (recorded
    finding F27: a temporary filter installed while nothing has been consumed skips
    the rejected tokens eagerly): `C06_finding_F27` proves its negation on the
    two-token text ` a`.
  * `C06_scoped`, `C06_filter_scope_refines` (PROVED) — the complement of F27.  `Exact lx s`
    ("consumed and exact") says: `lx.parseStart ≠ lx.cursor` (a token has been consumed since the
    start of the current (sub-)parse, so `buffer_next` never moves the cursor) and `s.rest` is
    *exactly* the raw stream at the lexer's scanner/cursor (`Abs` alone allows a slack of leading
    rejected tokens).  It holds after every delivered token, and `peek`, `set_filter` keep it: with
    something consumed `set_filter` only drops the lookahead and re-fills it from the unchanged
    cursor, so the newly installed filter sees the very raw tokens the reference evaluator sees,
    and so does the restored filter at the end of the scope.
    `scopedG c g` is the fragment relative to the flag `c` = "`Exact` holds on entry": all of
    `pegWithRep` (`C06_scoped_extends`), plus `filter_with(mask, a)` / `unfiltered(a)` where the flag
    is set and `a` (in the fragment with the flag set) leaves it set, plus `sub(a)` with `a` in the
    fragment for the *cleared* flag (`sub` restarts the parse span).  `out c g` computes the flag
    after a success of `g`: set after `one any any_index pred`, non-empty `seq`; threaded through
    `left right both center`, the `implies` family (the consequent is entered in the state the
    antecedent left); `either` needs both branches, `maybe`/`cond(false)` keep the entry flag;
    repetitions use the flag that is invariant in the loop.  `pegScoped g = scopedG false g`.
    - `C06_filter_scope_refines` (dynamic form): for every `g` with `scopedG true g` — in particular
      `filter_with(mask, a)` and `unfiltered(a)` with `scopedG true a`, `out true a`
      (`C06_filter_with_refines`) — every fuel, context, world and every `lx`/`s` with `Abs lx s`
      and `Exact lx s`: the four clauses of `C07_partial` (same value and related states on
      success, reference fails on error, fuel, no panic), and the resulting states are `Exact`
      again when `out true g`.
    - `C06_scoped` (syntactic corollary): the same four clauses for `pegScoped g` and *any* related
      `lx`/`s` (no `Exact` needed on entry); the result is `Exact` when `out false g`.
    - The two side conditions are necessary (`C06_scoped_needs_body_consumes`,
      `C06_scoped_needs_sub_reset`, both on `a ws b`): the model's `sub` skips rejected tokens
      only when the lexer holds no lookahead (F19), the reference `sub` always drops them; a filter
      change before the next token is consumed then shows different streams — model accepts,
      reference fails.  The first one is *not* covered by F27's description: the scope is entered
      after a token was consumed, it is the *restored* filter that is installed at a parse start.
  * The three interim theorems are kept.

  Lean: `run` is the model of tephra-combinator (TephraModel.Run), `Spec.peg` the
  reference evaluator (TephraModel.Spec.Peg); the driver checks model =
  implementation observation by observation on generated cases.  Unbounded: any
  scanner state, scanner function, text, metrics, grammar of the fragment, fuel.
-/
import TephraModel.Run
import TephraModel.Spec.Peg
import TephraProofs.PegRefine
import TephraProofs.PegScoped
import TephraProofs.PegCapture
import TephraProofs.LexOpsProof

namespace Tephra.Props
open Tephra

theorem C06_either_restarts (R : RunEnv) (n : Nat) (a b : G) (lx : Lx) (ctx : Ctx) (W W1 : World) (e : PErr)
    (h : run R n a lx ctx W = (.err e, W1)) :
    run R (n + 1) (.either a b) lx ctx W = run R n b lx ctx W1 := by
  simp [run, h]

theorem C06_maybe_restores (R : RunEnv) (n : Nat) (a : G) (lx : Lx) (ctx : Ctx) (W W1 : World) (e : PErr)
    (h : run R n a lx ctx.withoutSink W = (.err e, W1)) :
    run R (n + 1) (.maybe a) lx ctx W = (.ok .none lx, W1) := by
  simp [run, h]

theorem C06_filter_with_restores (R : RunEnv) (n : Nat) (mask : Nat) (a : G) (lx lx2 : Lx) (ctx : Ctx)
    (W W2 : World) (v : Val)
    (h : run R n a (lx.setFilter R.E (some mask)).2 ctx W = (.ok v lx2, W2)) :
    ∃ lx3, run R (n + 1) (.filterWith mask a) lx ctx W = (.ok v lx3, W2) ∧
      lx3 = (lx2.setFilter R.E lx.filter).2 := by
  refine ⟨_, ?_, rfl⟩
  simp [run, Lexer.setFilter] at h ⊢
  simp [h]

/-! ### the refinement theorem -/

open Tephra.Spec Tephra.PegRefine

/-- `Lexer::next` is `PState.pop`. -/
theorem C06_next_is_pop (E : LexEnv Nat Tok) (m : Metrics) (len : Nat) (ok : ScanOK E m len) (hp : PassOK E)
    (lx : Lx) (s : PState) (a : Abs E m len lx s) :
    ((lx.next E).1 = none ↔ s.pop = none) ∧
    (∀ r s', s.pop = some (r, s') → ∃ lx', lx.next E = (some r.tok, lx') ∧ Abs E m len lx' s' ∧
      lx'.tokenSpan = ⟨r.start, r.stop⟩) ∧
    (∀ t lx', lx.next E = (some t, lx') → ∃ r s', s.pop = some (r, s') ∧ r.tok = t ∧ Abs E m len lx' s' ∧
      lx'.tokenSpan = ⟨r.start, r.stop⟩) := by
  rcases next_cases ok hp a with ⟨lx', hn, hpop⟩ | ⟨r, s', lx', hn, hpop, a', hs⟩
  · refine ⟨by rw [hn, hpop]; simp, ?_, ?_⟩
    · intro r s' h; rw [hpop] at h; cases h
    · intro t lx'' h; rw [hn] at h; cases h
  · refine ⟨by rw [hn, hpop]; simp, ?_, ?_⟩
    · intro r2 s2 h
      rw [hpop] at h; cases h
      exact ⟨lx', hn, a', hs⟩
    · intro t lx'' h
      rw [hn] at h; cases h
      exact ⟨r, s', hpop, rfl, a', hs⟩

/-- `peek` shows the token `pop` would deliver and keeps the relation. -/
theorem C06_peek_shows_pop (E : LexEnv Nat Tok) (m : Metrics) (len : Nat) (ok : ScanOK E m len)
    (lx : Lx) (s : PState) (a : Abs E m len lx s) :
    Abs E m len (lx.peek E).2 s ∧ (lx.peek E).1 = s.pop.map (·.1.tok) :=
  peek_abs ok a

/-- Side conditions under which the Rust does not panic by design (`assert!`s). -/
def noAssert : G → Bool
  | .any ks | .anyIndex ks => !ks.isEmpty
  | .left a b | .right a b | .both a b | .either a b | .implies a b | .antecedent a b | .consequent a b =>
    noAssert a && noAssert b
  | .center a b c => noAssert a && noAssert b && noAssert c
  | .map a | .discard a | .maybe a | .requireIf _ a | .cond _ a | .filterWith _ a | .unfiltered a | .sub a
  | .spanned a | .text a | .someOf a => noAssert a
  | .condImplies a _ b => noAssert a && noAssert b
  | .repeat_ _ lo hi a => !hiBelow hi lo && noAssert a
  | .repeatUntil _ lo hi st a => !hiBelow hi lo && noAssert st && noAssert a
  | .intersperse _ lo hi a sp => !hiBelow hi lo && noAssert a && noAssert sp
  | .intersperseUntil _ lo hi st a sp => !hiBelow hi lo && noAssert st && noAssert a && noAssert sp
  | .intersperseDefault lo hi a _ => !hiBelow hi lo && noAssert a
  | _ => true

/-- FULL statement (false of the code because of F27, see `C06_finding_F27` — kept as a def):
every grammar of the PEG family, filter-changing nodes included. -/
def C06_statement : Prop :=
  ∀ (R : RunEnv) (m : Metrics) (len : Nat), ScanOK R.E m len → ScanFinal R.E m → PassOK R.E →
  ∀ (n : Nat) (g : G) (lx : Lx) (s : PState) (ctx : Ctx) (W : World),
    Spec.supported g = true → noAssert g = true → Abs R.E m len lx s →
    (∀ v lx', (run R n g lx ctx W).1 = .ok v lx' → ∀ k, 2 * n ≤ k →
      ∃ v' s', peg R.text k g s = .ok v' s' ∧ normVal v = normVal v' ∧ Abs R.E m len lx' s') ∧
    (∀ e, (run R n g lx ctx W).1 = .err e → ∀ k, 2 * n ≤ k → peg R.text k g s = .fail)

open PegRefine.Witness in
/-- F27: the full statement fails on the text ` a` (whitespace, then a letter), no filter
installed, for `both(filter_with(ws-filter, empty), one(ws))`: the reference evaluator
accepts (the whitespace token is still there after the filter is restored), the model
returns an error (the whitespace was skipped eagerly while the filter was installed). -/
theorem C06_finding_F27 : ¬ C06_statement := by
  intro h
  have h2 := (h RV mW 2 scanV_ok scanV_final passV 4 gV (Lexer.new 0 mW 2) sV ctxW World.init rfl rfl absV).2
  have hr := runV ctxW World.init
  have hp := pegV
  cases hrun : (run RV 4 gV (Lexer.new 0 mW 2) ctxW World.init).1 with
  | err e =>
    rw [h2 e hrun 8 (by decide)] at hp
    cases hp
  | ok v lx => rw [hrun] at hr; cases hr
  | fuel => rw [hrun] at hr; cases hr
  | panic => rw [hrun] at hr; cases hr

/-- PROVED: the refinement on the filter-preserving, repetition-free fragment. -/
theorem C06_partial (R : RunEnv) (m : Metrics) (len : Nat) (ok : ScanOK R.E m len) (hp : PassOK R.E)
    (n : Nat) (g : G) (lx : Lx) (s : PState) (ctx : Ctx) (W : World)
    (hg : pegCore g = true) (a : Abs R.E m len lx s) :
    (∀ v lx', (run R n g lx ctx W).1 = .ok v lx' → ∀ k, n ≤ k →
      ∃ s', peg R.text k g s = .ok v s' ∧ Abs R.E m len lx' s') ∧
    (∀ e, (run R n g lx ctx W).1 = .err e → ∀ k, n ≤ k → peg R.text k g s = .fail) ∧
    (peg R.text n g s = .fuel → (run R n g lx ctx W).1 = .fuel) ∧
    (run R n g lx ctx W).1 ≠ .panic := by
  have key := fun k hk => core_sim ok hp n k hk g lx s ctx W hg a
  refine ⟨?_, ?_, ?_, ?_⟩
  · intro v lx' h k hk
    have := key k hk
    rw [h] at this
    exact this
  · intro e h k hk
    have := key k hk
    rw [h] at this
    exact this
  · intro h
    have := key n (Nat.le_refl n)
    rw [h] at this
    cases hr : (run R n g lx ctx W).1 with
    | fuel => rfl
    | ok v lx' => rw [hr] at this; obtain ⟨_, h', _⟩ := this; cases h'
    | err e => rw [hr] at this; cases this
    | panic => rw [hr] at this; exact this.elim
  · intro h
    have := key n (Nat.le_refl n)
    rw [h] at this
    exact this

/-- The converse fuel implication fails: with fuel 2 the model of `left(empty, empty)`
is out of fuel while the reference evaluator succeeds. -/
theorem C06_fuel_accounting (R : RunEnv) (lx : Lx) (ctx : Ctx) (W : World) (s : PState) :
    pegCore (.left .empty .empty) = true ∧
    (run R 2 (.left .empty .empty) lx ctx W).1 = .fuel ∧
    peg R.text 2 (.left .empty .empty) s = .ok .unit s := by
  refine ⟨rfl, ?_, ?_⟩
  · simp [run]
  · simp [peg, bindOk]

/-- The relation on the filtered views, and the filters agree. -/
theorem C06_abs_view (E : LexEnv Nat Tok) (m : Metrics) (len : Nat) (hp : PassOK E) (lx : Lx) (s : PState)
    (a : Abs E m len lx s) :
    s.filter = lx.filter ∧
    s.view = (LexIter.rawAt E m len lx.scanner lx.cursor).filter (fun r => keeps s.filter r.tok) :=
  ⟨a.filter, a.view hp⟩

def okVal : RRes → Option Val
  | .ok v _ => some v
  | _ => none

open PegRefine.Witness in
set_option maxRecDepth 4000 in
/-- Non-vacuity: on the text `a b` with the whitespace filter, a scanner satisfying the
contract, the harness's initial lexer related to the whole raw stream, and a grammar
of the fragment on which the model succeeds (so the first clause of `C06_partial` applies). -/
example : ScanOK EW mW 3 ∧ PassOK EW ∧ Abs EW mW 3 lxW sW ∧ pegCore (.both (.one 0) (.one 1)) = true ∧
    okVal (run RW 5 (.both (.one 0) (.one 1)) lxW ctxW World.init).1 =
      some (.pair (.tok ⟨0, 0⟩) (.tok ⟨1, 0⟩)) := by
  refine ⟨scanW_ok, passW, absW, rfl, ?_⟩
  simp [okVal, run, lxW, ctxW, RW, EW, scanW, mW, Lexer.withFilter, Lexer.setFilter, Lexer.new,
    Lexer.bufferNext, Lexer.bufferLoop, Lexer.next, Lexer.nextLoop, Lexer.filtered, passesMask, classOf, Pos.zero]

/-! ### the complement of F27: filter scopes entered after a token was consumed -/

open Tephra.PegScoped

/-- the clauses of the refinement statements, from a simulation at every reference fuel `k ≥ 2 n` -/
theorem C06_sim_clauses {R : RunEnv} {m : Metrics} {len : Nat} {c : Bool} {n : Nat} {g : G} {lx : Lx}
    {s : PState} {ctx : Ctx} {W : World}
    (key : ∀ k, 2 * n ≤ k → SimG (AbsB R.E m len c) (run R n g lx ctx W).1 (peg R.text k g s)) :
    (∀ v lx', (run R n g lx ctx W).1 = .ok v lx' → ∀ k, 2 * n ≤ k →
      ∃ s', peg R.text k g s = .ok v s' ∧ Abs R.E m len lx' s' ∧ (c = true → Exact R.E m len lx' s')) ∧
    (∀ e, (run R n g lx ctx W).1 = .err e → ∀ k, 2 * n ≤ k → peg R.text k g s = .fail) ∧
    (∀ k, 2 * n ≤ k → peg R.text k g s = .fuel → (run R n g lx ctx W).1 = .fuel) ∧
    (run R n g lx ctx W).1 ≠ .panic := by
  refine ⟨?_, ?_, ?_, ?_⟩
  · intro v lx' h k hk
    have := key k hk
    rw [h] at this
    obtain ⟨s', h1, h2⟩ := this
    exact ⟨s', h1, h2.1, h2.2⟩
  · intro e h k hk
    have := key k hk
    rw [h] at this
    exact this
  · intro k hk h
    have := key k hk
    rw [h] at this
    cases hr : (run R n g lx ctx W).1 with
    | fuel => rfl
    | ok v lx' => rw [hr] at this; obtain ⟨_, h', _⟩ := this; cases h'
    | err e => rw [hr] at this; cases this
    | panic => rw [hr] at this; exact this.elim
  · intro h
    have := key (2 * n) (Nat.le_refl _)
    rw [h] at this
    exact this

/-- PROVED (dynamic form): in a state where a token has been consumed since the parse start and
the reference state is exact (`Exact`), every grammar of the fragment `scopedG true` — filter scopes
and `sub` included — refines the reference evaluator; the resulting states are exact again when
`out true g`. -/
theorem C06_filter_scope_refines (R : RunEnv) (m : Metrics) (len : Nat) (ok : ScanOK R.E m len) (hp : PassOK R.E)
    (n : Nat) (g : G) (lx : Lx) (s : PState) (ctx : Ctx) (W : World)
    (hg : scopedG true g = true) (a : Abs R.E m len lx s) (x : Exact R.E m len lx s) :
    (∀ v lx', (run R n g lx ctx W).1 = .ok v lx' → ∀ k, 2 * n ≤ k →
      ∃ s', peg R.text k g s = .ok v s' ∧ Abs R.E m len lx' s' ∧
        (out true g = true → Exact R.E m len lx' s')) ∧
    (∀ e, (run R n g lx ctx W).1 = .err e → ∀ k, 2 * n ≤ k → peg R.text k g s = .fail) ∧
    (∀ k, 2 * n ≤ k → peg R.text k g s = .fuel → (run R n g lx ctx W).1 = .fuel) ∧
    (run R n g lx ctx W).1 ≠ .panic :=
  C06_sim_clauses (fun k hk => scoped_sim ok hp n n (Nat.le_refl n) k hk g true lx s ctx W hg ⟨a, fun _ => x⟩)

/-- The filter scopes themselves: `filter_with(mask, a)` / `unfiltered(a)` entered in an exact state,
`a` in the fragment and leaving the state exact.  The inner parser sees the raw stream under the
other filter, afterwards the outer filter is back and the states are related and exact again. -/
theorem C06_filter_with_refines (R : RunEnv) (m : Metrics) (len : Nat) (ok : ScanOK R.E m len) (hp : PassOK R.E)
    (n : Nat) (g a : G) (mask : Nat) (lx : Lx) (s : PState) (ctx : Ctx) (W : World)
    (hgs : g = .filterWith mask a ∨ g = .unfiltered a)
    (ha : scopedG true a = true) (ho : out true a = true)
    (ab : Abs R.E m len lx s) (x : Exact R.E m len lx s) :
    (∀ v lx', (run R n g lx ctx W).1 = .ok v lx' → ∀ k, 2 * n ≤ k →
      ∃ s', peg R.text k g s = .ok v s' ∧ Abs R.E m len lx' s' ∧ Exact R.E m len lx' s' ∧
        s'.filter = s.filter) ∧
    (∀ e, (run R n g lx ctx W).1 = .err e → ∀ k, 2 * n ≤ k → peg R.text k g s = .fail) ∧
    (run R n g lx ctx W).1 ≠ .panic := by
  have hg : scopedG true g = true ∧ out true g = true := by
    rcases hgs with rfl | rfl <;> simp [scopedG, out, ha, ho]
  obtain ⟨h1, h2, _, h4⟩ := C06_filter_scope_refines R m len ok hp n g lx s ctx W hg.1 ab x
  refine ⟨?_, h2, h4⟩
  intro v lx' h k hk
  obtain ⟨s', e, a', x'⟩ := h1 v lx' h k hk
  refine ⟨s', e, a', x' hg.2, ?_⟩
  obtain ⟨k, rfl⟩ : ∃ k', k = k' + 1 := by
    cases k with
    | zero => simp [peg] at e
    | succ k => exact ⟨k, rfl⟩
  rcases hgs with rfl | rfl <;> simp only [peg, bindOk] at e <;>
    (generalize peg R.text k a _ = r at e; cases r <;> simp only [] at e <;> cases e; rfl)

/-- PROVED (syntactic corollary): on `pegScoped` — `pegWithRep` plus filter scopes that occur only where
a token has certainly been consumed in the same (sub-)parse, plus `sub` — `run` refines `Spec.peg` from
any related pair of states. -/
theorem C06_scoped (R : RunEnv) (m : Metrics) (len : Nat) (ok : ScanOK R.E m len) (hp : PassOK R.E)
    (n : Nat) (g : G) (lx : Lx) (s : PState) (ctx : Ctx) (W : World)
    (hg : pegScoped g = true) (a : Abs R.E m len lx s) :
    (∀ v lx', (run R n g lx ctx W).1 = .ok v lx' → ∀ k, 2 * n ≤ k →
      ∃ s', peg R.text k g s = .ok v s' ∧ Abs R.E m len lx' s' ∧
        (out false g = true → Exact R.E m len lx' s')) ∧
    (∀ e, (run R n g lx ctx W).1 = .err e → ∀ k, 2 * n ≤ k → peg R.text k g s = .fail) ∧
    (∀ k, 2 * n ≤ k → peg R.text k g s = .fuel → (run R n g lx ctx W).1 = .fuel) ∧
    (run R n g lx ctx W).1 ≠ .panic :=
  C06_sim_clauses (fun k hk => scoped_sim ok hp n n (Nat.le_refl n) k hk g false lx s ctx W hg
    ⟨a, fun h => nomatch h⟩)

/-- The scoped fragment contains the C07 fragment (for either flag), and a set flag only helps. -/
theorem C06_scoped_extends (g : G) :
    (pegWithRep g = true → ∀ c, scopedG c g = true) ∧ (pegScoped g = true → scopedG true g = true) :=
  ⟨fun h c => withRep_scoped g c h, fun h => scopedG_mono g (fun _ => rfl) h⟩

open PegRefine.Witness PegScoped.Witness in
/-- Necessity of `out true a` for the body of a scope: on `a ws b`, no filter,
`both(one(a), both(filter_with(ws-filter, sub(empty)), one(ws)))` — the scope is entered after `a` was
consumed, but its body ends with an empty sub-parse, so the old filter is restored at a parse start —
the model accepts `(a, ((), ws))`, the reference evaluator fails. -/
theorem C06_scoped_needs_body_consumes :
    scopedG true (.sub .empty) = true ∧ out true (.sub .empty) = false ∧
    Abs EW mW 3 (Lexer.new 0 mW 3) sN ∧
    rVal (run RW 6 gT (Lexer.new 0 mW 3) ctxW World.init).1 =
      some (.pair (.tok ⟨0, 0⟩) (.pair .unit (.tok ⟨12, 0⟩))) ∧
    isFailP (peg RW.text 12 gT sN) = true :=
  ⟨by decide, by decide, absN, runT, pegT⟩

open PegRefine.Witness PegScoped.Witness in
/-- Necessity of clearing the flag for the body of `sub`: on `a ws b` with the whitespace filter,
`both(one(a), both(seq_count([5]), sub(unfiltered(one(ws)))))` — `seq_count` leaves a lookahead, `sub`
then does not skip the whitespace while the reference `sub` drops it — the model accepts, the reference
evaluator fails. -/
theorem C06_scoped_needs_sub_reset :
    scopedG true (.unfiltered (.one 12)) = true ∧ scopedG false (.unfiltered (.one 12)) = false ∧
    rVal (run RW 6 gU lxW ctxW World.init).1 =
      some (.pair (.tok ⟨0, 0⟩) (.pair (.count 0) (.tok ⟨12, 0⟩))) ∧
    isFailP (peg RW.text 12 gU sW) = true :=
  ⟨by decide, by decide, runU, pegU⟩

open PegRefine.Witness PegScoped.Witness in
/-- Non-vacuity of `C06_scoped` (and of `C06_filter_scope_refines` for its second operand): on `a ws b`
with the whitespace filter, `both(one(a), unfiltered(one(ws)))` is in the fragment, the model delivers
`(a, ws)`, and so does the reference evaluator, whose remaining raw stream is `b` under the restored
whitespace filter — to which the model's final lexer is related by the theorem. -/
example : ScanOK EW mW 3 ∧ PassOK EW ∧ Abs EW mW 3 lxW sW ∧ pegScoped gS = true ∧
    gS = .both (.one 0) (.unfiltered (.one 12)) ∧
    rVal (run RW 5 gS lxW ctxW World.init).1 = some (.pair (.tok ⟨0, 0⟩) (.tok ⟨12, 0⟩)) ∧
    pVal (peg RW.text 10 gS sW) = some (.pair (.tok ⟨0, 0⟩) (.tok ⟨12, 0⟩)) ∧
    pRest (peg RW.text 10 gS sW) = some ([1], some 1) :=
  ⟨scanW_ok, passW, absW, gS_scoped, rfl, runS, pegS.1, pegS.2⟩

end Tephra.Props
