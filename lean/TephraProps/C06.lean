/-
  C06 — sequencing, choice and option combinators follow ordered-choice semantics.
  INTERIM file.  Proved here (for every scanner, text, filter table):
  * a failed left branch of `either` consumes nothing: the right branch is run
    from the very lexer the left branch was given;
  * `maybe` returns the lexer it was given when the wrapped parser fails;
  * `filter_with` restores the filter it replaced when the wrapped parser succeeds.
  The refinement theorem (`run` = `Spec.peg` on the raw token stream, for all
  grammars of the family) is in progress; until then the full statement is
  carried by the `peg` correspondence family + the reference evaluator as
  oracle.  Recorded finding F27 is replayed by the check.
-/
import TephraModel.Run
import TephraModel.Spec.Peg

namespace Tephra.Props
open Tephra

theorem C06_either_restarts (R : RunEnv) (n : Nat) (a b : G) (lx : Lx) (ctx : Ctx) (W W1 : World) (e : PErr)
    (h : run R n a lx ctx W = (.err e, W1)) :
    run R (n + 1) (.either a b) lx ctx W = run R n b lx ctx W1 := by
  simp [run, h]

theorem C06_maybe_restores (R : RunEnv) (n : Nat) (a : G) (lx : Lx) (ctx : Ctx) (W W1 : World) (e : PErr)
    (h : run R n a lx ctx.withoutSink W = (.err e, W1)) :
    run R (n + 1) (.maybe a) lx ctx W = (.ok .none lx, W1) := by
  simp [run, h]

theorem C06_filter_with_restores (R : RunEnv) (n : Nat) (mask : Nat) (a : G) (lx lx2 : Lx) (ctx : Ctx)
    (W W2 : World) (v : Val)
    (h : run R n a (lx.setFilter R.E (some mask)).2 ctx W = (.ok v lx2, W2)) :
    ∃ lx3, run R (n + 1) (.filterWith mask a) lx ctx W = (.ok v lx3, W2) ∧
      lx3 = (lx2.setFilter R.E lx.filter).2 := by
  refine ⟨_, ?_, rfl⟩
  simp [run, Lexer.setFilter] at h ⊢
  simp [h]

end Tephra.Props
