/-
  C06 — sequencing, choice and option combinators follow ordered-choice semantics.

  English.  Fix a scanner/filter table `R.E`, column metrics `m` and a text length
  `len` such that the scanner honours its contract `ScanOK` (a produced token is
  non-empty and ends inside the text; at or past the end nothing is produced) and
  the filter table is the harness one (`PassOK`: `Spec.keeps` is defined with it).
  `Abs lx s` relates a lexer `lx` to a state `s` of the reference PEG evaluator
  `Spec.peg`: same filter; the raw tokens `s.rest` and the raw stream at the lexer's
  scanner/cursor are equal once the leading tokens the filter rejects are dropped
  (so in particular `s.view` is the filtered raw stream at the lexer, `Abs.view`);
  a lookahead buffer, if present, holds exactly the first kept token; and `s.term`
  says whether the scan chain from the lexer's position reaches the end of text.
  A fresh lexer (with or without `with_filter`) is related to the whole raw stream
  (`PegRefine.abs_new`, `abs_withFilter`) — the harness's initial state.

  * `C06_next_is_pop`, `C06_peek_shows_pop`: the two primitive bridges — `Lexer::next`
    delivers exactly what `PState.pop` delivers (same token, `token_span` = the raw
    token's span, related states; `None` iff `pop = none`), and `peek` shows that
    token and leaves a lexer related to the same state.
  * `C06_partial` (PROVED): for every grammar of the fragment `pegCore` (primitives
    `empty one any any_index seq seq_count pred end_of_text`, `left right both center
    map discard either maybe require_if cond implies antecedent consequent
    cond_implies`, `any`/`any_index` with a non-empty token list), every fuel `n`,
    related `lx`/`s`, every context and world: if the model returns `Ok(v, lx')` then
    the reference evaluator — with the same or any larger fuel — returns `ok v s'`
    with `lx'` related to `s'` (same value, same remaining filtered stream, same
    filter); if the model returns an error the reference fails; if the reference
    runs out of fuel `n` so does the model with fuel `n`; the model never panics.
  * `C06_fuel_accounting`: the converse fuel implication is false already for
    `left(empty, empty)` with fuel 2 — the model of `left` spends one unit on the
    inner `both`, the reference evaluator does not.  (An artefact of the two
    evaluators' fuel accounting, not of the Rust code; this is why the fuel clause
    of `C06_partial` is one-directional.)
  * `ScanFinal` is not needed on this fragment: a lexer whose advance was refused
    is never continued.
  * `C06_statement` — the same for every grammar `Spec.supported` accepts (adding
    `filter_with`, `unfiltered`, `sub`, captures, repetition; values compared up to
    `normVal`, the normalisation of empty captured spans the oracle applies) — is FALSE of the code (recorded
    finding F27: a temporary filter installed while nothing has been consumed skips
    the rejected tokens eagerly): `C06_finding_F27` proves its negation on the
    two-token text ` a`.
  * The three interim theorems are kept.

  Lean: `run` is the model of tephra-combinator (TephraModel.Run), `Spec.peg` the
  reference evaluator (TephraModel.Spec.Peg); the driver checks model =
  implementation observation by observation on generated cases.  Unbounded: any
  scanner state, scanner function, text, metrics, grammar of the fragment, fuel.
-/
import TephraModel.Run
import TephraModel.Spec.Peg
import TephraProofs.PegRefine
import TephraProofs.PegCapture
import TephraProofs.LexOpsProof

namespace Tephra.Props
open Tephra

theorem C06_either_restarts (R : RunEnv) (n : Nat) (a b : G) (lx : Lx) (ctx : Ctx) (W W1 : World) (e : PErr)
    (h : run R n a lx ctx W = (.err e, W1)) :
    run R (n + 1) (.either a b) lx ctx W = run R n b lx ctx W1 := by
  simp [run, h]

theorem C06_maybe_restores (R : RunEnv) (n : Nat) (a : G) (lx : Lx) (ctx : Ctx) (W W1 : World) (e : PErr)
    (h : run R n a lx ctx.withoutSink W = (.err e, W1)) :
    run R (n + 1) (.maybe a) lx ctx W = (.ok .none lx, W1) := by
  simp [run, h]

theorem C06_filter_with_restores (R : RunEnv) (n : Nat) (mask : Nat) (a : G) (lx lx2 : Lx) (ctx : Ctx)
    (W W2 : World) (v : Val)
    (h : run R n a (lx.setFilter R.E (some mask)).2 ctx W = (.ok v lx2, W2)) :
    ∃ lx3, run R (n + 1) (.filterWith mask a) lx ctx W = (.ok v lx3, W2) ∧
      lx3 = (lx2.setFilter R.E lx.filter).2 := by
  refine ⟨_, ?_, rfl⟩
  simp [run, Lexer.setFilter] at h ⊢
  simp [h]

/-! ### the refinement theorem -/

open Tephra.Spec Tephra.PegRefine

/-- `Lexer::next` is `PState.pop`. -/
theorem C06_next_is_pop (E : LexEnv Nat Tok) (m : Metrics) (len : Nat) (ok : ScanOK E m len) (hp : PassOK E)
    (lx : Lx) (s : PState) (a : Abs E m len lx s) :
    ((lx.next E).1 = none ↔ s.pop = none) ∧
    (∀ r s', s.pop = some (r, s') → ∃ lx', lx.next E = (some r.tok, lx') ∧ Abs E m len lx' s' ∧
      lx'.tokenSpan = ⟨r.start, r.stop⟩) ∧
    (∀ t lx', lx.next E = (some t, lx') → ∃ r s', s.pop = some (r, s') ∧ r.tok = t ∧ Abs E m len lx' s' ∧
      lx'.tokenSpan = ⟨r.start, r.stop⟩) := by
  rcases next_cases ok hp a with ⟨lx', hn, hpop⟩ | ⟨r, s', lx', hn, hpop, a', hs⟩
  · refine ⟨by rw [hn, hpop]; simp, ?_, ?_⟩
    · intro r s' h; rw [hpop] at h; cases h
    · intro t lx'' h; rw [hn] at h; cases h
  · refine ⟨by rw [hn, hpop]; simp, ?_, ?_⟩
    · intro r2 s2 h
      rw [hpop] at h; cases h
      exact ⟨lx', hn, a', hs⟩
    · intro t lx'' h
      rw [hn] at h; cases h
      exact ⟨r, s', hpop, rfl, a', hs⟩

/-- `peek` shows the token `pop` would deliver and keeps the relation. -/
theorem C06_peek_shows_pop (E : LexEnv Nat Tok) (m : Metrics) (len : Nat) (ok : ScanOK E m len)
    (lx : Lx) (s : PState) (a : Abs E m len lx s) :
    Abs E m len (lx.peek E).2 s ∧ (lx.peek E).1 = s.pop.map (·.1.tok) :=
  peek_abs ok a

/-- Side conditions under which the Rust does not panic by design (`assert!`s). -/
def noAssert : G → Bool
  | .any ks | .anyIndex ks => !ks.isEmpty
  | .left a b | .right a b | .both a b | .either a b | .implies a b | .antecedent a b | .consequent a b =>
    noAssert a && noAssert b
  | .center a b c => noAssert a && noAssert b && noAssert c
  | .map a | .discard a | .maybe a | .requireIf _ a | .cond _ a | .filterWith _ a | .unfiltered a | .sub a
  | .spanned a | .text a | .someOf a => noAssert a
  | .condImplies a _ b => noAssert a && noAssert b
  | .repeat_ _ lo hi a => !hiBelow hi lo && noAssert a
  | .repeatUntil _ lo hi st a => !hiBelow hi lo && noAssert st && noAssert a
  | .intersperse _ lo hi a sp => !hiBelow hi lo && noAssert a && noAssert sp
  | .intersperseUntil _ lo hi st a sp => !hiBelow hi lo && noAssert st && noAssert a && noAssert sp
  | .intersperseDefault lo hi a _ => !hiBelow hi lo && noAssert a
  | _ => true

/-- FULL statement (false of the code because of F27, see `C06_finding_F27` — kept as a def):
every grammar of the PEG family, filter-changing nodes included. -/
def C06_statement : Prop :=
  ∀ (R : RunEnv) (m : Metrics) (len : Nat), ScanOK R.E m len → ScanFinal R.E m → PassOK R.E →
  ∀ (n : Nat) (g : G) (lx : Lx) (s : PState) (ctx : Ctx) (W : World),
    Spec.supported g = true → noAssert g = true → Abs R.E m len lx s →
    (∀ v lx', (run R n g lx ctx W).1 = .ok v lx' → ∀ k, 2 * n ≤ k →
      ∃ v' s', peg R.text k g s = .ok v' s' ∧ normVal v = normVal v' ∧ Abs R.E m len lx' s') ∧
    (∀ e, (run R n g lx ctx W).1 = .err e → ∀ k, 2 * n ≤ k → peg R.text k g s = .fail)

open PegRefine.Witness in
/-- F27: the full statement fails on the text ` a` (whitespace, then a letter), no filter
installed, for `both(filter_with(ws-filter, empty), one(ws))`: the reference evaluator
accepts (the whitespace token is still there after the filter is restored), the model
returns an error (the whitespace was skipped eagerly while the filter was installed). -/
theorem C06_finding_F27 : ¬ C06_statement := by
  intro h
  have h2 := (h RV mW 2 scanV_ok scanV_final passV 4 gV (Lexer.new 0 mW 2) sV ctxW World.init rfl rfl absV).2
  have hr := runV ctxW World.init
  have hp := pegV
  cases hrun : (run RV 4 gV (Lexer.new 0 mW 2) ctxW World.init).1 with
  | err e =>
    rw [h2 e hrun 8 (by decide)] at hp
    cases hp
  | ok v lx => rw [hrun] at hr; cases hr
  | fuel => rw [hrun] at hr; cases hr
  | panic => rw [hrun] at hr; cases hr

/-- PROVED: the refinement on the filter-preserving, repetition-free fragment. -/
theorem C06_partial (R : RunEnv) (m : Metrics) (len : Nat) (ok : ScanOK R.E m len) (hp : PassOK R.E)
    (n : Nat) (g : G) (lx : Lx) (s : PState) (ctx : Ctx) (W : World)
    (hg : pegCore g = true) (a : Abs R.E m len lx s) :
    (∀ v lx', (run R n g lx ctx W).1 = .ok v lx' → ∀ k, n ≤ k →
      ∃ s', peg R.text k g s = .ok v s' ∧ Abs R.E m len lx' s') ∧
    (∀ e, (run R n g lx ctx W).1 = .err e → ∀ k, n ≤ k → peg R.text k g s = .fail) ∧
    (peg R.text n g s = .fuel → (run R n g lx ctx W).1 = .fuel) ∧
    (run R n g lx ctx W).1 ≠ .panic := by
  have key := fun k hk => core_sim ok hp n k hk g lx s ctx W hg a
  refine ⟨?_, ?_, ?_, ?_⟩
  · intro v lx' h k hk
    have := key k hk
    rw [h] at this
    exact this
  · intro e h k hk
    have := key k hk
    rw [h] at this
    exact this
  · intro h
    have := key n (Nat.le_refl n)
    rw [h] at this
    cases hr : (run R n g lx ctx W).1 with
    | fuel => rfl
    | ok v lx' => rw [hr] at this; obtain ⟨_, h', _⟩ := this; cases h'
    | err e => rw [hr] at this; cases this
    | panic => rw [hr] at this; exact this.elim
  · intro h
    have := key n (Nat.le_refl n)
    rw [h] at this
    exact this

/-- The converse fuel implication fails: with fuel 2 the model of `left(empty, empty)`
is out of fuel while the reference evaluator succeeds. -/
theorem C06_fuel_accounting (R : RunEnv) (lx : Lx) (ctx : Ctx) (W : World) (s : PState) :
    pegCore (.left .empty .empty) = true ∧
    (run R 2 (.left .empty .empty) lx ctx W).1 = .fuel ∧
    peg R.text 2 (.left .empty .empty) s = .ok .unit s := by
  refine ⟨rfl, ?_, ?_⟩
  · simp [run]
  · simp [peg, bindOk]

/-- The relation on the filtered views, and the filters agree. -/
theorem C06_abs_view (E : LexEnv Nat Tok) (m : Metrics) (len : Nat) (hp : PassOK E) (lx : Lx) (s : PState)
    (a : Abs E m len lx s) :
    s.filter = lx.filter ∧
    s.view = (LexIter.rawAt E m len lx.scanner lx.cursor).filter (fun r => keeps s.filter r.tok) :=
  ⟨a.filter, a.view hp⟩

def okVal : RRes → Option Val
  | .ok v _ => some v
  | _ => none

open PegRefine.Witness in
set_option maxRecDepth 4000 in
/-- Non-vacuity: on the text `a b` with the whitespace filter, a scanner satisfying the
contract, the harness's initial lexer related to the whole raw stream, and a grammar
of the fragment on which the model succeeds (so the first clause of `C06_partial` applies). -/
example : ScanOK EW mW 3 ∧ PassOK EW ∧ Abs EW mW 3 lxW sW ∧ pegCore (.both (.one 0) (.one 1)) = true ∧
    okVal (run RW 5 (.both (.one 0) (.one 1)) lxW ctxW World.init).1 =
      some (.pair (.tok ⟨0, 0⟩) (.tok ⟨1, 0⟩)) := by
  refine ⟨scanW_ok, passW, absW, rfl, ?_⟩
  simp [okVal, run, lxW, ctxW, RW, EW, scanW, mW, Lexer.withFilter, Lexer.setFilter, Lexer.new,
    Lexer.bufferNext, Lexer.bufferLoop, Lexer.next, Lexer.nextLoop, Lexer.filtered, passesMask, classOf, Pos.zero]

end Tephra.Props
