/-
  C08 — error collection never changes the meaning of valid input.
  INTERIM file.  Proved here about the model: when the wrapped parser succeeds,
  `recover_default` returns its result untouched and reports nothing, with or
  without a sink; when it fails and no sink is installed, the failure is
  returned unchanged.  The lock-step theorem over committed grammars is in
  progress; the `twice` family (each case run under `Context::empty()` and under
  a sink) + oracle carries the statement meanwhile.

  First clause, proved for the whole combinator family:
  * `C08_nosink_log_empty`: under a context without a sink (`Context::empty()`,
    or below `maybe` / `unrecoverable`) NOTHING is reported, whatever the grammar
    (all constructors of `G`), lexer, fuel and outcome: the sink log after the
    run is the sink log before it.  (Down the tree the sink can only be switched
    off — `maybe`, `unrecoverable`, the retry of `stabilize` — never on.)
  * `C08_sink_monotone`: the general form — the log only grows at the end, and
    does not grow at all without a sink.
  Unbounded: any grammar, scanner, lexer, fuel, world.
-/
import TephraModel.Run
import TephraProofs.WorldFrame

namespace Tephra.Props
open Tephra

theorem C08_recover_success_transparent (R : RunEnv) (n : Nat) (dv : Val) (id : Nat) (r : Rec) (body : G)
    (lx lx1 : Lx) (ctx : Ctx) (W W1 : World) (v : Val)
    (h : run R n body lx ctx (W.register id r) = (.ok v lx1, W1)) :
    recoverDefault R (n + 1) dv id r body lx ctx W = (.ok v lx1, W1) := by
  simp [recoverDefault, h]

theorem C08_recover_no_sink_returns_error (R : RunEnv) (n : Nat) (dv : Val) (id : Nat) (r : Rec) (body : G)
    (lx : Lx) (ctx : Ctx) (W W1 : World) (e : PErr) (hs : ctx.sink = false)
    (h : run R n body lx ctx (W.register id r) = (.err e, W1)) :
    recoverDefault R (n + 1) dv id r body lx ctx W = (.err e, W1) := by
  simp [recoverDefault, h, sendError, hs]

theorem C08_nosink_log_empty (R : RunEnv) (n : Nat) (g : G) (lx : Lx) (ctx : Ctx) (W : World)
    (h : ctx.sink = false) : (run R n g lx ctx W).2.log = W.log :=
  WorldFrame.run_nosink_log R n g lx ctx W h

theorem C08_sink_monotone (R : RunEnv) (n : Nat) (g : G) (lx : Lx) (ctx : Ctx) (W : World) :
    W.log <+: (run R n g lx ctx W).2.log ∧ (ctx.sink = false → (run R n g lx ctx W).2.log = W.log) :=
  ⟨(WorldFrame.run_world_prefix R n g lx ctx W).1, WorldFrame.run_nosink_log R n g lx ctx W⟩

/-- Non-vacuity / sharpness: with a sink the same grammar does report. -/
example (R : RunEnv) (lx : Lx) (W : World) :
    (run R 1 (.probe 0) lx ⟨true, [], false⟩ W).2.log = W.log ++ [⟨[], .probe 0⟩] ∧
    (run R 1 (.probe 0) lx ⟨false, [], false⟩ W).2.log = W.log := by
  constructor <;> simp [run, sendError, Ctx.apply, mkErr]

end Tephra.Props
