/-
  C08 — error collection never changes the meaning of valid input.
  Proved here about the model: when the wrapped parser succeeds,
  `recover_default` returns its result untouched and reports nothing, with or
  without a sink; when it fails and no sink is installed, the failure is
  returned unchanged.  The lock-step theorem over committed grammars
  (`TephraProofs/LockStep.lean`) gives the three clauses (a), (b), (c) below.

  First clause, proved for the whole combinator family:
  * `C08_nosink_log_empty`: under a context without a sink (`Context::empty()`,
    or below `maybe` / `unrecoverable`) NOTHING is reported, whatever the grammar
    (all constructors of `G`), lexer, fuel and outcome: the sink log after the
    run is the sink log before it.  (Down the tree the sink can only be switched
    off — `maybe`, `unrecoverable`, the retry of `stabilize` — never on.)
  * `C08_sink_monotone`: the general form — the log only grows at the end, and
    does not grow at all without a sink.
  Unbounded: any grammar, scanner, lexer, fuel, world.
-/
import TephraModel.Run
import TephraModel.Spec.Committed
import TephraProofs.WorldFrame
import TephraProofs.LockStep

namespace Tephra.Props
open Tephra

theorem C08_recover_success_transparent (R : RunEnv) (n : Nat) (dv : Val) (id : Nat) (r : Rec) (body : G)
    (lx lx1 : Lx) (ctx : Ctx) (W W1 : World) (v : Val)
    (h : run R n body lx ctx (W.register id r) = (.ok v lx1, W1)) :
    recoverDefault R (n + 1) dv id r body lx ctx W = (.ok v lx1, W1) := by
  simp [recoverDefault, h]

theorem C08_recover_no_sink_returns_error (R : RunEnv) (n : Nat) (dv : Val) (id : Nat) (r : Rec) (body : G)
    (lx : Lx) (ctx : Ctx) (W W1 : World) (e : PErr) (hs : ctx.sink = false)
    (h : run R n body lx ctx (W.register id r) = (.err e, W1)) :
    recoverDefault R (n + 1) dv id r body lx ctx W = (.err e, W1) := by
  simp [recoverDefault, h, sendError, hs]

theorem C08_nosink_log_empty (R : RunEnv) (n : Nat) (g : G) (lx : Lx) (ctx : Ctx) (W : World)
    (h : ctx.sink = false) : (run R n g lx ctx W).2.log = W.log :=
  WorldFrame.run_nosink_log R n g lx ctx W h

theorem C08_sink_monotone (R : RunEnv) (n : Nat) (g : G) (lx : Lx) (ctx : Ctx) (W : World) :
    W.log <+: (run R n g lx ctx W).2.log ∧ (ctx.sink = false → (run R n g lx ctx W).2.log = W.log) :=
  ⟨(WorldFrame.run_world_prefix R n g lx ctx W).1, WorldFrame.run_nosink_log R n g lx ctx W⟩

/-- Non-vacuity / sharpness: with a sink the same grammar does report. -/
example (R : RunEnv) (lx : Lx) (W : World) :
    (run R 1 (.probe 0) lx ⟨true, [], false⟩ W).2.log = W.log ++ [⟨[], .probe 0⟩] ∧
    (run R 1 (.probe 0) lx ⟨false, [], false⟩ W).2.log = W.log := by
  constructor <;> simp [run, sendError, Ctx.apply, mkErr]


/-! ## The lock-step theorems

`ctx0 := { ctx with sink := false }` is the context without a sink (`Context::empty()` with the
same transform chain), `ctx1 := { ctx with sink := true }` the same context with a sink. -/

open LockStep

/-- **C08, target 1.**  A recovery-free grammar (no `recover*`, `stabilize`, `bracket*`, `list*`,
`probe` anywhere) never consults the sink: the two runs are equal — result, lexer and world —
for every fuel, lexer and world. -/
theorem C08_recoveryFree_sink_independent (R : RunEnv) (n : Nat) (g : G) (lx : Lx) (ctx : Ctx) (W : World)
    (hg : Spec.recoveryFree g = true) :
    run R n g lx { ctx with sink := false } W = run R n g lx { ctx with sink := true } W :=
  ((siAt R n).run g lx { ctx with sink := false } W hg).symm

/-- **C08, target 2.**  Without a sink no lexer ever carries a recover state: a run (any grammar)
started on a lexer with `recover = none` returns, when it succeeds, a lexer with `recover = none`,
on which `advance_to_recover` is the identity.  (The invariant `LockStep.NRAt` states the same
for every member of the mutual block, i.e. for every lexer handed to a sub-parser.) -/
theorem C08_no_recover_state_without_sink (R : RunEnv) (n : Nat) (g : G) (lx : Lx) (ctx : Ctx) (W : World)
    (hr : lx.recover = none) (v : Val) (lx' : Lx)
    (h : (run R n g lx { ctx with sink := false } W).1 = .ok v lx') :
    lx'.recover = none ∧ ∀ W', advanceToRecover R lx' W' = (some lx', W') := by
  have h1 := run_nr R n g lx { ctx with sink := false } W rfl hr v lx' h
  exact ⟨h1, fun W' => advanceToRecover_none R lx' W' h1⟩

/-- `committed'` — `Spec.committed` minus *live probes*: the definitions agree on every
constructor except `probe`, where `committed' (.probe _) = false` (`Spec.committed` says `true`).
A probe below `maybe` / `unrecoverable` is still allowed (both predicates are `true` there). -/
abbrev committed' (g : G) : Bool := LockStep.committed' g

theorem committed'_imp_committed (g : G) (h : committed' g = true) : Spec.committed g = true :=
  comm_false_imp g h

/-- The general dichotomy behind (a), (b), (c): the two runs agree entirely, or the sink-enabled
run has appended a first entry `e'` to the log, the sink-less run failed with an error `e`, the
bodies agree, and `e' = ctx.apply e` when the grammar pushes no transforms (`ctxFree`). -/
theorem C08_lockstep (R : RunEnv) (n : Nat) (g : G) (lx : Lx) (ctx : Ctx) (W : World)
    (hg : committed' g = true) (hr : lx.recover = none) :
    run R n g lx { ctx with sink := true } W = run R n g lx { ctx with sink := false } W ∨
    ∃ e e' rest, (run R n g lx { ctx with sink := false } W).1 = .err e ∧
      (run R n g lx { ctx with sink := true } W).2.log = W.log ++ e' :: rest ∧ e'.body = e.body ∧
      (ctxFree g = true → e' = ctx.apply e) := by
  rcases run_lockstep false R n g lx { ctx with sink := false } W rfl hg hr with h | h
  · exact Or.inl h
  · obtain ⟨e', rest, hlog, hrest⟩ := h
    obtain ⟨e, he, hb, hp⟩ := hrest rfl
    exact Or.inr ⟨e, e', rest, he, hlog, hb, hp⟩

/-- **C08 (a).**  `committed' g`, lexer without recover state: if the parse WITHOUT a sink
succeeds, the parse WITH a sink yields the identical value, the identical lexer (hence end
position), the identical world — and nothing was reported (`W0.log = W.log`). -/
theorem C08_a (R : RunEnv) (n : Nat) (g : G) (lx : Lx) (ctx : Ctx) (W : World)
    (hg : committed' g = true) (hr : lx.recover = none) (v : Val) (lx' : Lx) (W0 : World)
    (h : run R n g lx { ctx with sink := false } W = (.ok v lx', W0)) :
    run R n g lx { ctx with sink := true } W = (.ok v lx', W0) ∧ W0.log = W.log := by
  have hl : W0.log = W.log := by
    have := C08_nosink_log_empty R n g lx { ctx with sink := false } W rfl
    rwa [h] at this
  rcases C08_lockstep R n g lx ctx W hg hr with h1 | ⟨e, e', rest, he, _⟩
  · exact ⟨h1.trans h, hl⟩
  · rw [h] at he; cases he

/-- **C08 (b)** — for `Spec.committed` itself (probes included).  If the parse WITH a sink
succeeds and reported nothing, the parse without a sink yields the identical value, lexer and
world. -/
theorem C08_b (R : RunEnv) (n : Nat) (g : G) (lx : Lx) (ctx : Ctx) (W : World)
    (hg : Spec.committed g = true) (hr : lx.recover = none) (v : Val) (lx' : Lx) (W1 : World)
    (h : run R n g lx { ctx with sink := true } W = (.ok v lx', W1)) (hlog : W1.log = W.log) :
    run R n g lx { ctx with sink := false } W = (.ok v lx', W1) := by
  rcases run_lockstep true R n g lx { ctx with sink := false } W rfl (by rw [comm_true]; exact hg) hr with h1 | h1
  · exact h1.symm.trans h
  · obtain ⟨e', rest, hl, _⟩ := h1
    have h2 : (run R n g lx { ctx with sink := true } W).2.log = W.log ++ e' :: rest := hl
    rw [h] at h2
    have := congrArg List.length (hlog.symm.trans h2)
    simp at this

/-- **C08 (c).**  `committed' g`, lexer without recover state: if the parse WITHOUT a sink
fails with `e`, then the parse WITH a sink either fails with the same `e` (then the two runs are
equal altogether, see `C08_lockstep`), or the first entry it appends to the log has the body of
`e` — and is exactly `ctx.apply e` when the grammar pushes no context transforms. -/
theorem C08_c (R : RunEnv) (n : Nat) (g : G) (lx : Lx) (ctx : Ctx) (W : World)
    (hg : committed' g = true) (hr : lx.recover = none) (e : PErr)
    (h : (run R n g lx { ctx with sink := false } W).1 = .err e) :
    (run R n g lx { ctx with sink := true } W).1 = .err e ∨
    ∃ e' rest, (run R n g lx { ctx with sink := true } W).2.log = W.log ++ e' :: rest ∧ e'.body = e.body ∧
      (ctxFree g = true → e' = ctx.apply e) := by
  rcases C08_lockstep R n g lx ctx W hg hr with h1 | ⟨e0, e', rest, he, hl, hb, hp⟩
  · exact Or.inl (by rw [h1]; exact h)
  · rw [h] at he
    cases he
    exact Or.inr ⟨e', rest, hl, hb, hp⟩

/-! ### `Spec.committed` is too generous for (a) and (c): a live `probe` reports to the sink -/

/-- (a) as first stated, for `Spec.committed` — FALSE (see `C08_a_committed_false`). -/
def C08_a_committed_statement : Prop :=
  ∀ (R : RunEnv) (n : Nat) (g : G) (lx : Lx) (ctx : Ctx) (W : World), Spec.committed g = true →
    lx.recover = none → ∀ (v : Val) (lx' : Lx) (W0 : World),
    run R n g lx { ctx with sink := false } W = (.ok v lx', W0) →
    run R n g lx { ctx with sink := true } W = (.ok v lx', W0)

/-- (c) as first stated, for `Spec.committed` — FALSE (see `C08_c_committed_false`). -/
def C08_c_committed_statement : Prop :=
  ∀ (R : RunEnv) (n : Nat) (g : G) (lx : Lx) (ctx : Ctx) (W : World), Spec.committed g = true →
    lx.recover = none → ∀ (e : PErr), (run R n g lx { ctx with sink := false } W).1 = .err e →
    (run R n g lx { ctx with sink := true } W).1 = .err e ∨
    ∃ e' rest, (run R n g lx { ctx with sink := true } W).2.log = W.log ++ e' :: rest ∧ e'.body = e.body

/-- a scanner that never produces a token, over the empty text -/
def cexEnv : RunEnv := ⟨⟨fun s _ _ => (none, s), fun _ _ => true, fun _ b => ⟨b, 0, b⟩⟩, []⟩
def cexLx : Lx := Lexer.new 1 ⟨.lf, 4⟩ 0

/-- Counterexample to (a) for `Spec.committed`: `probe 0` succeeds without a sink and reports
nothing; with a sink it reports the probe. -/
theorem C08_a_committed_false : ¬ C08_a_committed_statement := by
  intro h
  have h0 : run cexEnv 1 (.probe 0) cexLx { (⟨false, [], false⟩ : Ctx) with sink := false } World.init =
      (.ok .unit cexLx, (run cexEnv 1 (.probe 0) cexLx ⟨false, [], false⟩ World.init).2) := by
    simp [run]
  have := h cexEnv 1 (.probe 0) cexLx ⟨false, [], false⟩ World.init rfl rfl _ _ _ h0
  have := congrArg (fun r => r.2.log.length) this
  simp [run, sendError, World.init] at this

/-- `probe 0` followed by a recovering `one 0` -/
def cexG : G := .both (.probe 0) (.recover 1 7 (.one 0) (.before 0))

theorem cex_next : Lexer.next cexEnv.E cexLx = (none, cexLx) := by
  simp [Lexer.next, cexLx, Lexer.new]

theorem cex_peek (lx : Lx) (h : lx.len ≤ lx.cursor.byte) : Lexer.peek cexEnv.E lx = (none, lx) := by
  simp [Lexer.peek, h]

@[simp] theorem cexLx_len : cexLx.len = 0 := rfl

theorem cex_run0 : (run cexEnv 5 cexG cexLx ⟨false, [], false⟩ World.init).1 =
    .err (mkErr (.unexp cexLx.parseSpan cexLx.tokenSpan (.token 0) .eot)) := by
  simp [run, cexG, recoverDefault, sendError, cex_next]

theorem cex_run1 : (run cexEnv 5 cexG cexLx ⟨true, [], false⟩ World.init).1 = .err (mkErr .recover) ∧
    (run cexEnv 5 cexG cexLx ⟨true, [], false⟩ World.init).2.log =
      [⟨[], .probe 0⟩, mkErr (.unexp cexLx.parseSpan cexLx.tokenSpan (.token 0) .eot)] := by
  simp [run, cexG, recoverDefault, sendError, cex_next, advanceToRecover, recoverLoop, cex_peek, World.init,
    World.register, Ctx.apply, mkErr, Lexer.setRecoverState]

/-- Counterexample to (c) for `Spec.committed`: on the empty input, without a sink
`both (probe 0) (recover (one 0))` fails with `unexpected end of text`; with a sink the result is
`Err(RecoverError)` and the FIRST log entry is the probe, not that error.  (The same happens with
the harness scanner `lexEnv (ScanCfg.ofId 1)`, state `1`, on the text `b`: checked with `#eval`.) -/
theorem C08_c_committed_false : ¬ C08_c_committed_statement := by
  intro h
  rcases h cexEnv 5 cexG cexLx ⟨false, [], false⟩ World.init rfl rfl _ cex_run0 with h1 | ⟨e', rest, hl, hb⟩
  · have := cex_run1.1
    rw [show ({ (⟨false, [], false⟩ : Ctx) with sink := true } : Ctx) = ⟨true, [], false⟩ from rfl] at h1
    rw [this] at h1
    simp [mkErr] at h1
  · rw [show ({ (⟨false, [], false⟩ : Ctx) with sink := true } : Ctx) = ⟨true, [], false⟩ from rfl, cex_run1.2] at hl
    simp [World.init] at hl
    rw [← hl.1] at hb
    simp [mkErr] at hb

/-! ### non-vacuity -/

/-- `committed'` admits grammars that do recover: recovering combinators in sequence, a
probe below `maybe`, a speculative recovery-free alternative. -/
example : committed' (.both (.recover 1 7 (.one 0) (.before 4))
    (.either (.one 1) (.list 1 8 0 none (.maybe (.probe 3)) 4 [7]))) = true := by decide

/-- (a) is not vacuous: a committed grammar with a recovering combinator that succeeds without a sink
(here: on any lexer, `recover(empty)`), and (c)'s second alternative does occur (`cex_run1`). -/
example (R : RunEnv) (lx : Lx) (W : World) :
    run R 3 (.recover 1 7 .empty (.before 4)) lx ⟨false, [], false⟩ W =
      (.ok .unit lx, W.register 7 (.before 4)) := by
  simp [run, recoverDefault]

end Tephra.Props
