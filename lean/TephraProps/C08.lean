/-
  C08 — error collection never changes the meaning of valid input.
  INTERIM file.  Proved here about the model: when the wrapped parser succeeds,
  `recover_default` returns its result untouched and reports nothing, with or
  without a sink; when it fails and no sink is installed, the failure is
  returned unchanged.  The lock-step theorem over committed grammars is in
  progress; the `twice` family (each case run under `Context::empty()` and under
  a sink) + oracle carries the statement meanwhile.
-/
import TephraModel.Run

namespace Tephra.Props
open Tephra

theorem C08_recover_success_transparent (R : RunEnv) (n : Nat) (dv : Val) (id : Nat) (r : Rec) (body : G)
    (lx lx1 : Lx) (ctx : Ctx) (W W1 : World) (v : Val)
    (h : run R n body lx ctx (W.register id r) = (.ok v lx1, W1)) :
    recoverDefault R (n + 1) dv id r body lx ctx W = (.ok v lx1, W1) := by
  simp [recoverDefault, h]

theorem C08_recover_no_sink_returns_error (R : RunEnv) (n : Nat) (dv : Val) (id : Nat) (r : Rec) (body : G)
    (lx : Lx) (ctx : Ctx) (W W1 : World) (e : PErr) (hs : ctx.sink = false)
    (h : run R n body lx ctx (W.register id r) = (.err e, W1)) :
    recoverDefault R (n + 1) dv id r body lx ctx W = (.err e, W1) := by
  simp [recoverDefault, h, sendError, hs]

end Tephra.Props
