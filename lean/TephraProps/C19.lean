/-
  C19 — position navigation is total and consistent with forward measurement.

  Setting.  A well-formed text `t` is cut as `t = pre ++ suf` at an *aligned*
  offset (any character boundary, except between the CR and the LF of a CRLF
  line ending when CRLF is the configured ending).  The base position handed
  to the library is the canonical position of that offset, `p = canon m pre`
  (byte offset, number of line endings before it, display width since the last
  one, tabs advancing to the next tab stop).  `Spec.navSpec m pre suf pat f`
  says, in terms of the forward-defined `linesOf` / `canon` only, what each of
  the twelve `ColumnMetrics` navigation methods must answer there.

  Proved here, for every line-ending style, every tab width (`1 ≤ tab`, the
  trusted-base assumption: 0 divides by zero in Rust), every character width
  assignment, every pattern and every character predicate, unbounded in the
  text: all twelve methods return (never panic) exactly the specified answer.
  Consequences: `next`/`previous` are mutually inverse on aligned canonical
  positions, and every answer is again the canonical position of an offset of
  `t` (it is literally `canon m` of a prefix of `t`), i.e. what forward
  measurement from the start of the text would report (C03).
-/
import TephraProofs.Nav
import TephraProofs.NavColumns
import TephraModel.Fam.Nav
import TephraProps.C20

namespace Tephra.Props
open Tephra Tephra.Spec

variable {m : Metrics} {pre suf : Text}

/-- (1) `next_position`: the canonical position after the first unit of the suffix (a whole line
ending, else one character); `None` at the end of the text. -/
theorem C19_next (_htab : 1 ≤ m.tab) (pat : Text) (f : Ch → Bool) (hwf : Text.WF (pre ++ suf))
    (hal : aligned m pre suf = true) :
    nextPosition m (pre ++ suf) (canon m pre) = .ok (navSpec m pre suf pat f).next :=
  nextPosition_cut hwf hal

/-- (2) `previous_position`: the canonical position before the last unit of the prefix; `None` at
the start of the text. -/
theorem C19_previous (_htab : 1 ≤ m.tab) (pat : Text) (f : Ch → Bool)
    (hwf : Text.WF (pre ++ suf)) (_hal : aligned m pre suf = true) :
    previousPosition m (pre ++ suf) (canon m pre) = .ok (navSpec m pre suf pat f).prev :=
  previousPosition_cut hwf

/-- (3) `line_start_position`: the canonical position just after the last line ending in the
prefix (offset 0 if there is none). -/
theorem C19_line_start (_htab : 1 ≤ m.tab) (pat : Text) (f : Ch → Bool)
    (hwf : Text.WF (pre ++ suf)) (_hal : aligned m pre suf = true) :
    lineStartPosition m (pre ++ suf) (canon m pre) = .ok (navSpec m pre suf pat f).lineStart :=
  lineStartPosition_cut hwf

/-- (4) `line_end_position`: the canonical position just before the first line ending in the suffix
(the end of the text if there is none). -/
theorem C19_line_end (_htab : 1 ≤ m.tab) (pat : Text) (f : Ch → Bool)
    (hwf : Text.WF (pre ++ suf)) (hal : aligned m pre suf = true) :
    lineEndPosition m (pre ++ suf) (canon m pre) = .ok (navSpec m pre suf pat f).lineEnd :=
  lineEndPosition_cut hwf hal

/-- (5) `previous_line_end_position`: the canonical position just before the last line ending in
the prefix; `None` on the first line. -/
theorem C19_previous_line_end (_htab : 1 ≤ m.tab) (pat : Text) (f : Ch → Bool)
    (hwf : Text.WF (pre ++ suf)) (_hal : aligned m pre suf = true) :
    previousLineEndPosition m (pre ++ suf) (canon m pre)
      = .ok (navSpec m pre suf pat f).prevLineEnd :=
  previousLineEndPosition_cut hwf

/-- (6) `next_line_start_position`: the canonical position just after the first line ending in the
suffix; `None` on the last line. -/
theorem C19_next_line_start (_htab : 1 ≤ m.tab) (pat : Text) (f : Ch → Bool)
    (hwf : Text.WF (pre ++ suf)) (hal : aligned m pre suf = true) :
    nextLineStartPosition m (pre ++ suf) (canon m pre)
      = .ok (navSpec m pre suf pat f).nextLineStart :=
  nextLineStartPosition_cut hwf hal

/-- (7) `start_position`: iterating `previous_position` terminates at the zero position. -/
theorem C19_start (_htab : 1 ≤ m.tab) (pat : Text) (f : Ch → Bool)
    (hwf : Text.WF (pre ++ suf)) (_hal : aligned m pre suf = true) :
    startPosition m (pre ++ suf) (canon m pre) = .ok (navSpec m pre suf pat f).start :=
  startPosition_cut hwf

/-- (8) `end_position`: the canonical position of the end of the text. -/
theorem C19_end (_htab : 1 ≤ m.tab) (pat : Text) (f : Ch → Bool)
    (hwf : Text.WF (pre ++ suf)) (hal : aligned m pre suf = true) :
    endPosition m (pre ++ suf) (canon m pre) = .ok (navSpec m pre suf pat f).end_ :=
  endPosition_cut hwf hal

/-- (9) `position_after_str`: `Some` exactly when the pattern is non-empty, the suffix starts with
it, and it ends on an aligned offset; then the canonical position after it. -/
theorem C19_after_str (_htab : 1 ≤ m.tab) (pat : Text) (f : Ch → Bool)
    (hwf : Text.WF (pre ++ suf)) (hal : aligned m pre suf = true) :
    positionAfterStr m (pre ++ suf) (canon m pre) pat
      = .ok (navSpec m pre suf pat f).afterStr :=
  positionAfterStr_cut pat hwf hal

/-- (10) `position_after_chars_matching`: the canonical position after the longest run of whole
units whose characters all satisfy `f`; `None` if that run is empty. -/
theorem C19_after_chars (_htab : 1 ≤ m.tab) (pat : Text) (f : Ch → Bool)
    (hwf : Text.WF (pre ++ suf)) (hal : aligned m pre suf = true) :
    positionAfterCharsMatching m f (pre ++ suf) (canon m pre)
      = .ok (navSpec m pre suf pat f).afterChars :=
  positionAfterCharsMatching_cut f hwf hal

/-- (11) `next_position_after_chars_matching`: the next position if all characters of the first
unit satisfy `f`, else `None`. -/
theorem C19_next_after_chars (_htab : 1 ≤ m.tab) (pat : Text) (f : Ch → Bool)
    (hwf : Text.WF (pre ++ suf)) (hal : aligned m pre suf = true) :
    nextPositionAfterCharsMatching m f (pre ++ suf) (canon m pre)
      = .ok (navSpec m pre suf pat f).nextAfterChars :=
  nextPositionAfterCharsMatching_cut f hwf hal

/-- (12) `is_line_break`: true exactly when the suffix starts with a line ending. -/
theorem C19_is_line_break (_htab : 1 ≤ m.tab) (pat : Text) (f : Ch → Bool)
    (hwf : Text.WF (pre ++ suf)) (_hal : aligned m pre suf = true) :
    isLineBreak m (pre ++ suf) (canon m pre).byte = .ok (navSpec m pre suf pat f).isBreak :=
  isLineBreak_cut hwf

/-- C19, combined: at every aligned canonical position of every well-formed text the twelve
navigation methods return exactly what the specification requires. -/
theorem C19_navigation (htab : 1 ≤ m.tab) (pat : Text) (f : Ch → Bool)
    (hwf : Text.WF (pre ++ suf)) (hal : aligned m pre suf = true) :
    Fam.Nav.model m (pre ++ suf) (canon m pre) pat f
      = Fam.Nav.ofSpec (navSpec m pre suf pat f) := by
  unfold Fam.Nav.model Fam.Nav.ofSpec
  rw [C19_next htab pat f hwf hal, C19_previous htab pat f hwf hal,
    C19_line_start htab pat f hwf hal, C19_line_end htab pat f hwf hal,
    C19_previous_line_end htab pat f hwf hal, C19_next_line_start htab pat f hwf hal,
    C19_start htab pat f hwf hal, C19_end htab pat f hwf hal, C19_after_str htab pat f hwf hal,
    C19_after_chars htab pat f hwf hal, C19_next_after_chars htab pat f hwf hal,
    C19_is_line_break htab pat f hwf hal]

/-- Totality: none of the twelve calls panics (no slice off a character boundary, no failed
`expect`, no arithmetic underflow, and `start_position` terminates). -/
theorem C19_total (htab : 1 ≤ m.tab) (pat : Text) (f : Ch → Bool)
    (hwf : Text.WF (pre ++ suf)) (hal : aligned m pre suf = true) :
    nextPosition m (pre ++ suf) (canon m pre) ≠ .panic ∧
    previousPosition m (pre ++ suf) (canon m pre) ≠ .panic ∧
    lineStartPosition m (pre ++ suf) (canon m pre) ≠ .panic ∧
    lineEndPosition m (pre ++ suf) (canon m pre) ≠ .panic ∧
    previousLineEndPosition m (pre ++ suf) (canon m pre) ≠ .panic ∧
    nextLineStartPosition m (pre ++ suf) (canon m pre) ≠ .panic ∧
    startPosition m (pre ++ suf) (canon m pre) ≠ .panic ∧
    endPosition m (pre ++ suf) (canon m pre) ≠ .panic ∧
    positionAfterStr m (pre ++ suf) (canon m pre) pat ≠ .panic ∧
    positionAfterCharsMatching m f (pre ++ suf) (canon m pre) ≠ .panic ∧
    nextPositionAfterCharsMatching m f (pre ++ suf) (canon m pre) ≠ .panic ∧
    isLineBreak m (pre ++ suf) (canon m pre).byte ≠ .panic := by
  rw [C19_next htab pat f hwf hal, C19_previous htab pat f hwf hal,
    C19_line_start htab pat f hwf hal, C19_line_end htab pat f hwf hal,
    C19_previous_line_end htab pat f hwf hal, C19_next_line_start htab pat f hwf hal,
    C19_start htab pat f hwf hal, C19_end htab pat f hwf hal, C19_after_str htab pat f hwf hal,
    C19_after_chars htab pat f hwf hal, C19_next_after_chars htab pat f hwf hal,
    C19_is_line_break htab pat f hwf hal]
  simp

/-- Round trip: whenever `next_position` moves from the base to `q`, `previous_position` at `q`
moves back to the base. -/
theorem C19_next_then_previous (_htab : 1 ≤ m.tab) (hwf : Text.WF (pre ++ suf))
    (hal : aligned m pre suf = true) {q : Pos}
    (hq : nextPosition m (pre ++ suf) (canon m pre) = .ok (some q)) :
    previousPosition m (pre ++ suf) q = .ok (some (canon m pre)) := by
  have hws := (WF_append.mp hwf).2
  rw [nextPosition_cut hwf hal] at hq
  cases hu : firstUnit m suf with
  | none => rw [hu] at hq; simp at hq
  | some u =>
    rw [hu] at hq; simp at hq; subst hq
    obtain ⟨rest, e, _, _⟩ := firstUnit_some hws hu
    subst e
    have hwf' : Text.WF ((pre ++ u) ++ rest) := by rwa [List.append_assoc]
    have := previousPosition_cut (m := m) hwf'
    rw [List.append_assoc] at this
    rw [this, lastUnit_after_firstUnit hal hws hu]
    simp

/-- Round trip: whenever `previous_position` moves from the base to `q`, `next_position` at `q`
moves forward to the base again. -/
theorem C19_previous_then_next (_htab : 1 ≤ m.tab) (hwf : Text.WF (pre ++ suf))
    (hal : aligned m pre suf = true) {q : Pos}
    (hq : previousPosition m (pre ++ suf) (canon m pre) = .ok (some q)) :
    nextPosition m (pre ++ suf) q = .ok (some (canon m pre)) := by
  rw [previousPosition_cut hwf] at hq
  cases hu : lastUnit m pre with
  | none => rw [hu] at hq; simp at hq
  | some u =>
    rw [hu] at hq; simp at hq; subst hq
    obtain ⟨a, e, _⟩ := lastUnit_cases hu
    subst e
    obtain ⟨h1, h2⟩ := firstUnit_after_lastUnit hal hu
    have hwf' : Text.WF (a ++ (u ++ suf)) := by rwa [← List.append_assoc]
    have := nextPosition_cut hwf' h2
    rw [← List.append_assoc] at this
    simp only [List.length_append, Nat.add_sub_cancel, List.take_left']
    rw [this, h1]
    simp

/-- Non-vacuity: CRLF text `"a⇥\r\n世b"` (tab width 4), cut after the line ending (offset 4,
canonical position (4,1,0)).  The cut is aligned and well-formed, and the specification is not
trivial there: next = (7,1,2) over the wide character, previous = (2,0,4) back over the whole
CRLF to the column reached by the tab, the line starts at this very offset, the previous
line ended at (2,0,4), and the text ends at (8,1,3). -/
example :
    let m : Metrics := ⟨.crlf, 4⟩
    let pre : Text := [⟨97, 1, 1⟩, ⟨9, 1, 0⟩, ⟨13, 1, 0⟩, ⟨10, 1, 0⟩]
    let suf : Text := [⟨19990, 3, 2⟩, ⟨98, 1, 1⟩]
    let S := navSpec m pre suf [⟨19990, 3, 2⟩] (fun c => c.code ≥ 128)
    1 ≤ m.tab ∧ Text.WF (pre ++ suf) ∧ aligned m pre suf = true ∧ canon m pre = ⟨4, 1, 0⟩ ∧
      S.next = some ⟨7, 1, 2⟩ ∧ S.prev = some ⟨2, 0, 4⟩ ∧ S.lineStart = ⟨4, 1, 0⟩ ∧
      S.prevLineEnd = some ⟨2, 0, 4⟩ ∧ S.end_ = ⟨8, 1, 3⟩ ∧ S.isBreak = false := by
  refine ⟨by decide, ?_, by decide, ?_, ?_, ?_, ?_, ?_, ?_, ?_⟩
  · intro c hc; simp at hc; rcases hc with rfl | rfl | rfl | rfl | rfl | rfl <;> decide
  all_goals
    simp [navSpec, canon, canonFrom, linesOf, breakAt, breakBefore, lbCodes, lbLen, stripCodes,
      colWidth, bytes, Pos.zero, firstUnit, lastUnit, curLinePre, curLineSuf]

/-- `SourceText::iter_columns` (the loop `next_position`, `next_position`, … that yields, for each
step, the text slice stepped over and the position reached).  Started at the canonical position of
an aligned cut `pre ++ suf` of a well-formed text, for every number `n` of items requested: the
loop never panics (every `next_position` call succeeds and every slice `text[s.byte..e.byte]` has
`s.byte ≤ e.byte`), and its first `n` items are exactly the first `n` column steps of the suffix as
the specification sees them (`Fam.Nav.specColumns`): one step per character, except that under CRLF
a CR immediately followed by LF is one single step of two characters; the byte length reported for
a step is the byte length of those characters, and the position reported after a step is the
canonical position `canon m (pre ++ consumed)` of the offset reached, i.e. what forward measurement
from the start of the text gives.  The loop ends (fewer than `n` items) exactly at the end of the
text.  Hypotheses: the text is well-formed, `1 ≤ tab` (trusted-base assumption, not used by the
proof), and the starting cut is aligned (not between the CR and LF of a CRLF ending). -/
theorem C19_iter_columns (_htab : 1 ≤ m.tab) (hwf : Text.WF (pre ++ suf))
    (hal : aligned m pre suf = true) (n : Nat) :
    Fam.Nav.iterColumns m (pre ++ suf) n (canon m pre) = .ok (Fam.Nav.specColumns m pre n suf) :=
  iterColumns_cut n hwf hal

/-- Non-vacuity for `C19_iter_columns`: CRLF text `"a\r\nb⇥"` (tab width 4) from position zero.
The hypotheses hold, and the specified (hence the computed) steps are not trivial: 1 byte to
(1,0,1), the whole CRLF in one step of 2 bytes to (3,1,0), 1 byte to (4,1,1), and the tab, 1 byte,
to the next tab stop (5,1,4); then the loop stops although 12 items were requested. -/
example :
    let m : Metrics := ⟨.crlf, 4⟩
    let t : Text := [⟨97, 1, 1⟩, ⟨13, 1, 0⟩, ⟨10, 1, 0⟩, ⟨98, 1, 1⟩, ⟨9, 1, 0⟩]
    1 ≤ m.tab ∧ Text.WF ([] ++ t) ∧ aligned m [] t = true ∧ canon m [] = Pos.zero ∧
      Fam.Nav.specColumns m [] 12 t
        = [(1, ⟨1, 0, 1⟩), (2, ⟨3, 1, 0⟩), (1, ⟨4, 1, 1⟩), (1, ⟨5, 1, 4⟩)] ∧
      Fam.Nav.iterColumns m t 12 Pos.zero
        = .ok [(1, ⟨1, 0, 1⟩), (2, ⟨3, 1, 0⟩), (1, ⟨4, 1, 1⟩), (1, ⟨5, 1, 4⟩)] := by
  intro m t
  have hwf : Text.WF ([] ++ t) := by
    intro c hc; simp [t] at hc; rcases hc with rfl | rfl | rfl | rfl | rfl <;> decide
  have hspec : Fam.Nav.specColumns m [] 12 t
      = [(1, ⟨1, 0, 1⟩), (2, ⟨3, 1, 0⟩), (1, ⟨4, 1, 1⟩), (1, ⟨5, 1, 4⟩)] := by
    simp [m, t, Fam.Nav.specColumns, canon, canonFrom, linesOf, breakAt, lbCodes, stripCodes,
      colWidth, bytes, Pos.zero]
  refine ⟨by decide, hwf, by decide, by simp, hspec, ?_⟩
  have := C19_iter_columns (m := m) (pre := []) (suf := t) (by decide) hwf (by decide) 12
  rw [hspec] at this
  simpa using this

/-- OFFSET SOURCES (the `SourceText` wrappers translate by the start offset).  On a source that
does not start at the origin — a window `⟨wmid, m, canon m wa⟩` onto `wa ++ wmid ++ wz`, however it
was obtained (`clipped`, a window of a window, `with_start_position`: `C20_window_of_window`) — the
six navigation methods at an aligned position answer with the canonical positions of the document,
restricted to the window: the statement of C19 for the wrappers.  (Bundles `C20_window_nav`,
`C20_window_prev`, `C20_window_prevLineEnd`; the driver compares exactly these six fields of the
`window` family under C19.) -/
theorem C19_offset_sources (m : Metrics) (_htab : 1 ≤ m.tab) (wa pre' suf' wz : Text)
    (hwf : Text.WF (wa ++ (pre' ++ suf') ++ wz))
    (hw1 : aligned m wa (pre' ++ suf' ++ wz) = true)
    (hw2 : aligned m (wa ++ (pre' ++ suf')) wz = true)
    (hap : aligned m (wa ++ pre') (suf' ++ wz) = true)
    (sub : Span) (o : Fam.Window.Obs) (sa smid sz : Text)
    (ho : Fam.Window.model m (wa ++ (pre' ++ suf') ++ wz)
      ⟨canon m wa, canon m (wa ++ (pre' ++ suf'))⟩ (canon m (wa ++ pre')) sub = .ok o) :
    let S := Fam.Window.ofSpec
      (Spec.windowSpec m wa (pre' ++ suf') wz (wa ++ pre') (suf' ++ wz) sa smid sz)
    o.next = S.next ∧ o.prev = S.prev ∧ o.lineStart = S.lineStart ∧ o.lineEnd = S.lineEnd ∧
      o.prevLineEnd = S.prevLineEnd ∧ o.nextLineStart = S.nextLineStart := by
  have hn := C20_window_nav m wa pre' suf' wz hwf hw1 hw2 hap sub o sa smid sz ho
  have hp := C20_window_prev m wa pre' suf' wz hwf hw1 hw2 sub o sa smid sz ho
  have hl := C20_window_prevLineEnd m wa pre' suf' wz hwf hw1 hw2 sub o sa smid sz ho
  exact ⟨hn.1, hp, hn.2.1, hn.2.2.1, hl, hn.2.2.2⟩

end Tephra.Props
