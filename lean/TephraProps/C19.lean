/-
  C19 — position navigation is total and consistent with forward measurement.
  INTERIM file: only the forward-measurement clause is proved here (end
  measurement from zero is the canonical end; from any start it is
  `canonFrom`).  The twelve per-method refinement theorems against
  `Spec.navSpec` are being added; until then they are carried by the `nav`
  correspondence family + oracle and listed as partial in the evidence.
-/
import TephraProofs.Canon
import TephraModel.Fam.Nav

namespace Tephra.Props
open Tephra Tephra.Spec

theorem C19_end_measurement (m : Metrics) (p : Pos) (t : Text) (hwf : Text.WF t) :
    endSuf m p t = canonFrom m p t := endSuf_eq_canonFrom m p t hwf

example : Text.WF [⟨97, 1, 1⟩, ⟨9, 1, 0⟩] := by
  intro c hc; simp at hc; rcases hc with rfl | rfl <;> decide

end Tephra.Props
