/-
  C15 — error-context transforms apply innermost-first, exactly once.
  INTERIM file.  Proved here about the model of `Context` (a value after the
  `fix:` commits): applying a context appends exactly its chain, innermost
  first; a push extends the chain at the inner end; a push on a locked context
  is ignored; `raw` empties the chain and locks; `unrecoverable` keeps the
  chain; sending with a sink logs the transformed error exactly once, without a
  sink hands the error back unchanged.  The tree-level theorem (`run` on
  operation trees = `Spec.expectedProbes`) is in progress; the `ctxops`
  correspondence family + oracle carries it meanwhile.
-/
import TephraModel.Run
import TephraModel.Spec.Ctx

namespace Tephra.Props
open Tephra

theorem C15_apply_chain (c : Ctx) (e : PErr) : (c.apply e).trail = e.trail ++ c.chain ∧ (c.apply e).body = e.body := by
  simp [Ctx.apply]

theorem C15_push_innermost (c : Ctx) (t : Nat) (e : PErr) (h : c.locked = false) :
    ((c.pushed t).apply e).trail = e.trail ++ t :: c.chain := by
  simp [Ctx.pushed, Ctx.apply, h]

theorem C15_push_locked_ignored (c : Ctx) (t : Nat) (h : c.locked = true) : c.pushed t = c := by
  simp [Ctx.pushed, h]

theorem C15_raw_strips (c : Ctx) (t : Nat) (e : PErr) :
    (c.rawCtx.apply e).trail = e.trail ∧ c.rawCtx.pushed t = c.rawCtx ∧ c.rawCtx.sink = c.sink := by
  simp [Ctx.rawCtx, Ctx.apply, Ctx.pushed]

theorem C15_send (c : Ctx) (e : PErr) (W : World) :
    (c.sink = true → sendError c e W = (none, { W with log := W.log ++ [c.apply e] })) ∧
    (c.sink = false → sendError c e W = (some e, W)) := by
  constructor <;> intro h <;> simp [sendError, h]

example : (((⟨true, [], false⟩ : Ctx).pushed 1).pushed 2).apply ⟨[], .probe 0⟩ = ⟨[2, 1], .probe 0⟩ := by decide

end Tephra.Props
