/-
  C15 — error-context transforms apply innermost-first, exactly once.

  English.  A *context-operation tree* is a grammar built from `probe tag`
  (raise an error here and record what happens to it), `ctxPushed tag a` /
  `ctxPush tag a` (run `a` under one more error transform `tag`), `ctxLocked
  flag a`, `raw a` (strip all transforms and lock), `unrecoverable a` (no sink),
  `both a b`, `center a b c` (siblings, run on clones of the context).  The
  specification `Spec.expectedProbes` computes from the *tree alone* — from the
  nesting of operations around each probe — the list of probes in order, each
  with: is the error delivered to the sink, and the tags of the transforms
  applied to it, innermost first.

  * `C15_tree`: for every such tree, every lexer, every context value with the
    given chain / lock / sink, every world and every fuel for which `run` is
    not out of fuel: `run` succeeds and returns the lexer unchanged; the sink log
    grows by exactly the errors `⟨trail, probe tag⟩` of the expected `sent`
    probes, in order (each transformed by exactly the k enclosing unlocked
    pushes, innermost first, once; locked pushes ignored; `raw` strips; sibling
    clones neither duplicate nor reorder); the probe log grows by exactly one
    record per expected probe, which is the string `run` builds from `(tag, sent,
    trail)` of that expectation; recover flags and closure table are untouched.
  * `C15_tree_fuel`: fuel `ctxDepth g + 1` suffices (so `C15_tree` is not vacuous).
  * `C15_tree_count`, `C15_tree_nth`: the number of new probe records and the
    j-th new record, as corollaries.
  * The interim theorems about the `Context` value itself are kept below.

  Lean: `run` is the model of the combinators + `Context` (TephraModel.Run),
  checked against the Rust on the `ctxops` family; `CtxRefine.probeLine` is the
  record format of the `.probe` case of `run` (`C15_probe_line` shows it).
  Unbounded: any tree, lexer, scanner, fuel, initial world.
-/
import TephraModel.Run
import TephraModel.Spec.Ctx
import TephraProofs.CtxRefine

namespace Tephra.Props
open Tephra

theorem C15_apply_chain (c : Ctx) (e : PErr) : (c.apply e).trail = e.trail ++ c.chain ∧ (c.apply e).body = e.body := by
  simp [Ctx.apply]

theorem C15_push_innermost (c : Ctx) (t : Nat) (e : PErr) (h : c.locked = false) :
    ((c.pushed t).apply e).trail = e.trail ++ t :: c.chain := by
  simp [Ctx.pushed, Ctx.apply, h]

theorem C15_push_locked_ignored (c : Ctx) (t : Nat) (h : c.locked = true) : c.pushed t = c := by
  simp [Ctx.pushed, h]

theorem C15_raw_strips (c : Ctx) (t : Nat) (e : PErr) :
    (c.rawCtx.apply e).trail = e.trail ∧ c.rawCtx.pushed t = c.rawCtx ∧ c.rawCtx.sink = c.sink := by
  simp [Ctx.rawCtx, Ctx.apply, Ctx.pushed]

theorem C15_send (c : Ctx) (e : PErr) (W : World) :
    (c.sink = true → sendError c e W = (none, { W with log := W.log ++ [c.apply e] })) ∧
    (c.sink = false → sendError c e W = (some e, W)) := by
  constructor <;> intro h <;> simp [sendError, h]

example : (((⟨true, [], false⟩ : Ctx).pushed 1).pushed 2).apply ⟨[], .probe 0⟩ = ⟨[2, 1], .probe 0⟩ := by decide

/-! ### the tree-level theorem -/

open CtxRefine in
/-- The record format: exactly the string of the `.probe` case of `run`. -/
theorem C15_probe_line (R : RunEnv) (lx : Lx) (tag : Nat) (sent : Bool) (trail : List Nat) :
    probeLine R lx ⟨tag, sent, trail⟩ =
      (let sent := if sent then "sent" else "back:" ++ GWire.showErr (mkErr (.probe tag))
       let applied := GWire.showErr ⟨trail, .probe tag⟩
       s!"P{tag}:{sent}:{applied}:{showLexer R lx}") := rfl

open CtxRefine in
theorem C15_tree (R : RunEnv) (g : G) (active : List Nat) (locked sink : Bool) (exp : List Spec.ProbeExp)
    (hexp : Spec.expectedProbes g active locked sink = some exp)
    (n : Nat) (lx : Lx) (ctx : Ctx) (W : World)
    (hc : ctx.chain = active) (hl : ctx.locked = locked) (hs : ctx.sink = sink)
    (hfuel : (run R n g lx ctx W).1 ≠ .fuel) :
    ∃ v W', run R n g lx ctx W = (.ok v lx, W') ∧
      W'.log = W.log ++ ((exp.filter (·.sent)).map fun p => ⟨p.trail, .probe p.tag⟩) ∧
      W'.probes = W.probes ++ exp.map (probeLine R lx) ∧
      W'.found = W.found ∧ W'.specs = W.specs := by
  rcases run_tree R g active locked sink exp hexp n lx ctx W hc hl hs with h | h
  · exact absurd h.1 hfuel
  · obtain ⟨v, hv⟩ := h.res
    exact ⟨v, (run R n g lx ctx W).2, Prod.ext hv rfl, h.log, h.probes, h.found, h.specs⟩

open CtxRefine in
theorem C15_tree_fuel (R : RunEnv) (g : G) (active : List Nat) (locked sink : Bool) (exp : List Spec.ProbeExp)
    (hexp : Spec.expectedProbes g active locked sink = some exp)
    (n : Nat) (lx : Lx) (ctx : Ctx) (W : World)
    (hc : ctx.chain = active) (hl : ctx.locked = locked) (hs : ctx.sink = sink)
    (hn : ctxDepth g + 1 ≤ n) :
    (run R n g lx ctx W).1 ≠ .fuel := by
  rcases run_tree R g active locked sink exp hexp n lx ctx W hc hl hs with h | h
  · omega
  · obtain ⟨v, hv⟩ := h.res
    rw [hv]; simp

open CtxRefine in
theorem C15_tree_count (R : RunEnv) (g : G) (active : List Nat) (locked sink : Bool) (exp : List Spec.ProbeExp)
    (hexp : Spec.expectedProbes g active locked sink = some exp)
    (n : Nat) (lx : Lx) (ctx : Ctx) (W : World)
    (hc : ctx.chain = active) (hl : ctx.locked = locked) (hs : ctx.sink = sink)
    (hfuel : (run R n g lx ctx W).1 ≠ .fuel) :
    (run R n g lx ctx W).2.probes.length = W.probes.length + exp.length := by
  obtain ⟨v, W', h, _, hp, _⟩ := C15_tree R g active locked sink exp hexp n lx ctx W hc hl hs hfuel
  rw [h]; simp [hp]

open CtxRefine in
theorem C15_tree_nth (R : RunEnv) (g : G) (active : List Nat) (locked sink : Bool) (exp : List Spec.ProbeExp)
    (hexp : Spec.expectedProbes g active locked sink = some exp)
    (n : Nat) (lx : Lx) (ctx : Ctx) (W : World)
    (hc : ctx.chain = active) (hl : ctx.locked = locked) (hs : ctx.sink = sink)
    (hfuel : (run R n g lx ctx W).1 ≠ .fuel) (j : Nat) (hj : j < exp.length) :
    (run R n g lx ctx W).2.probes[W.probes.length + j]? = some (probeLine R lx exp[j]) := by
  obtain ⟨v, W', h, _, hp, _⟩ := C15_tree R g active locked sink exp hexp n lx ctx W hc hl hs hfuel
  rw [h]; simp [hp, hj]

/-- Non-vacuity: a tree with two nested pushes, a locked push, a `raw` subtree
and an `unrecoverable` sibling; under an empty unlocked context with a sink the
log receives `[2,1]`, `[2,1]` (locked push `3` ignored) and `[]` (raw), and the
probe under `unrecoverable` is handed back. -/
example (R : RunEnv) (lx : Lx) (W : World) :
    ∃ v W', run R 7
        (.ctxPushed 1 (.ctxPush 2 (.center (.probe 10) (.ctxLocked true (.ctxPushed 3 (.probe 11)))
          (.both (.raw (.ctxPushed 4 (.probe 12))) (.unrecoverable (.probe 13))))))
        lx ⟨true, [], false⟩ W = (.ok v lx, W') ∧
      W'.log = W.log ++ [⟨[2, 1], .probe 10⟩, ⟨[2, 1], .probe 11⟩, ⟨[], .probe 12⟩] ∧
      W'.probes.length = W.probes.length + 4 := by
  have hexp : Spec.expectedProbes
      (.ctxPushed 1 (.ctxPush 2 (.center (.probe 10) (.ctxLocked true (.ctxPushed 3 (.probe 11)))
          (.both (.raw (.ctxPushed 4 (.probe 12))) (.unrecoverable (.probe 13))))))
      [] false true = some [⟨10, true, [2, 1]⟩, ⟨11, true, [2, 1]⟩, ⟨12, true, []⟩, ⟨13, false, [2, 1]⟩] := by
    decide
  have hf := C15_tree_fuel R _ _ _ _ _ hexp 7 lx ⟨true, [], false⟩ W rfl rfl rfl (by decide)
  obtain ⟨v, W', h, hlog, hp, _⟩ := C15_tree R _ _ _ _ _ hexp 7 lx ⟨true, [], false⟩ W rfl rfl rfl hf
  exact ⟨v, W', h, by simpa using hlog, by simp [hp]⟩

end Tephra.Props
