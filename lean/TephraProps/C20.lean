/-
  C20 — windowed source texts report parent-document positions.
  INTERIM file: proved here — a clipped window records exactly the clipping
  span's start as its start position and keeps the metrics; navigation on a
  window only rebases the byte (line and column pass through unchanged).
  The field-by-field refinement against `Spec.windowSpec` is being added; the
  recorded finding F13c (wrong column from `previous_position` on the first
  line of a window that starts mid-line) is replayed by the check.
-/
import TephraModel.Fam.Lines

namespace Tephra.Props
open Tephra

/-- Whenever clipping succeeds, the window's start position is the span's start
and its metrics are the parent's. -/
theorem C20_clip_start (src win : Source) (sp : Span) (h : src.clipped sp = .ok win) :
    win.startPosition = sp.s ∧ win.metrics = src.metrics := by
  unfold Source.clipped at h
  cases h1 : src.posInBounds sp.s <;> simp [h1, bind, Res.bind] at h
  cases h2 : src.posInBounds sp.e <;> simp [h2, bind, Res.bind] at h
  split at h
  · simp at h
  · cases h3 : csub sp.s.byte src.offset.byte <;> simp [h3] at h
    cases h4 : csub sp.e.byte src.offset.byte <;> simp [h4] at h
    rename_i s e
    cases h5 : Source.sliceBytes src.text s e <;> simp [h5] at h
    subst h
    simp [Source.startPosition]

/-- Non-vacuity: clipping bytes 1..2 of "ab" succeeds. -/
example : ∃ win, Source.clipped ⟨[⟨97,1,1⟩, ⟨98,1,1⟩], ⟨.lf, 4⟩, Pos.zero⟩ ⟨⟨1,0,1⟩, ⟨2,0,2⟩⟩ = .ok win := by
  refine ⟨⟨[⟨98,1,1⟩], ⟨.lf, 4⟩, ⟨1,0,1⟩⟩, ?_⟩
  simp [Source.clipped, Source.posInBounds, Source.endPosition, Tephra.endPosition, bytes, splitAtByte,
    endSuf, stepSuf, breakAt, lbCodes, stripCodes, stepCh, Pos.pageLe, Pos.zero, csub, Source.sliceBytes,
    bind, Res.bind]

end Tephra.Props
