/-
  C20 — windowed source texts report parent-document positions.

  English: clip any source text to a span between two aligned character
  boundaries (`SourceText::clipped`, debug assertions on).  The clip succeeds and
  is the text under the span, starting at the span's start position
  (`C20_clipped`).  Asked about any aligned position inside it, or any sub-span
  inside it, the window answers what the parent document answers, restricted to
  the window: its text / start / end / full span are the span's, `next_position`,
  `line_start_position`, `line_end_position`, `next_line_start_position`,
  `widen_to_line` and `split_lines` are the parent's answers clamped to (or
  dropped outside) the window.  Every line-ending style, tab width ≥ 1 and
  character widths; unbounded in the text.

  `previous_position` and `previous_line_end_position` (`C20_window_prev`,
  `C20_window_prevLineEnd`) are likewise the parent's answers, kept when they lie
  inside the window and `none` otherwise (in particular `none` at the window's
  start), for EVERY window — also one that starts in the middle of a line, after a
  tab.  Before the repair commit ef86ab4 (former finding F13c) a window starting
  mid-line re-measured the column of such an answer from 0 instead of from the
  window's start column, and these two statements held only for windows starting at
  column 0; the code now re-measures an answer on the window's first line from the
  window's start position, and the statements are full (`C20_window_prev_statement`
  is proved, `C20_window_prev_statement_holds`).  The former witness now agrees with
  the parent: `C20_former_F13c_witness`.  The column-0 corollaries are kept under
  their old names `C20_window_prev_partial`, `C20_window_prevLineEnd_partial`.

  Nested windows (`C20_window_of_window`): a window cut out of a window, or out of a
  source that was built over the outer bytes with `with_start_position`, answers
  exactly like the window cut out of the document, so all of the above holds for
  windows of windows as well.

  Lean: `Fam.Window.model` (the observation the differential driver compares)
  against `Fam.Window.ofSpec (Spec.windowSpec …)`, field by field.  The window is
  `t = wa ++ wmid ++ wz`; an inner position is the cut `(wa ++ pre') | (suf' ++ wz)`
  with `wmid = pre' ++ suf'`; an inner sub-span is `(wa ++ a') | smid | (z' ++ wz)`
  with `wmid = a' ++ smid ++ z'`.
-/
import TephraProofs.WindowPrev
import TephraProofs.WindowNested

namespace Tephra.Props
open Tephra Tephra.Spec Tephra.LinesPf

/-- `clipped` succeeds on a span between two aligned cuts and yields the window. -/
theorem C20_clipped (m : Metrics) (_htab : 1 ≤ m.tab) (wa wmid wz : Text)
    (hwf : Text.WF (wa ++ wmid ++ wz))
    (hw1 : aligned m wa (wmid ++ wz) = true) (hw2 : aligned m (wa ++ wmid) wz = true) :
    let P : Source := ⟨wa ++ wmid ++ wz, m, Pos.zero⟩
    let w : Span := ⟨canon m wa, canon m (wa ++ wmid)⟩
    P.clipped w = .ok ⟨wmid, m, canon m wa⟩ :=
  clipped_correct m wa wmid wz hwf hw1 hw2

/-- The window observation is defined (no panic in `clipped`). -/
theorem C20_window_defined (m : Metrics) (_htab : 1 ≤ m.tab) (wa wmid wz : Text)
    (hwf : Text.WF (wa ++ wmid ++ wz))
    (hw1 : aligned m wa (wmid ++ wz) = true) (hw2 : aligned m (wa ++ wmid) wz = true)
    (p : Pos) (sub : Span) :
    ∃ o, Fam.Window.model m (wa ++ wmid ++ wz) ⟨canon m wa, canon m (wa ++ wmid)⟩ p sub = .ok o :=
  ⟨_, window_model_eq m wa wmid wz hwf hw1 hw2 p sub⟩

section
variable (m : Metrics) (_htab : 1 ≤ m.tab) (wa wmid wz : Text)
  (hwf : Text.WF (wa ++ wmid ++ wz))
  (hw1 : aligned m wa (wmid ++ wz) = true) (hw2 : aligned m (wa ++ wmid) wz = true)
  (p : Pos) (sub : Span) (o : Fam.Window.Obs)
  (pre suf sa smid sz : Text)

include hwf hw1 hw2 in
/-- text, start position, end position and full span of the window are the span's. -/
theorem C20_window_extent
    (ho : Fam.Window.model m (wa ++ wmid ++ wz) ⟨canon m wa, canon m (wa ++ wmid)⟩ p sub = .ok o) :
    let S := Fam.Window.ofSpec (windowSpec m wa wmid wz pre suf sa smid sz)
    o.text = S.text ∧ o.start = S.start ∧ o.end_ = S.end_ ∧ o.full = S.full := by
  rw [window_model_eq m wa wmid wz hwf hw1 hw2] at ho
  injection ho with ho; subst ho
  have hwf' := (Text.WF_append.mp hwf).1
  have hal := aligned_of_append_right hw1
  refine ⟨rfl, rfl, ?_, ?_⟩
  · exact win_end hwf' hal
  · exact wfield_full hwf' hal

end

section
variable (m : Metrics) (_htab : 1 ≤ m.tab) (wa pre' suf' wz : Text)
  (hwf : Text.WF (wa ++ (pre' ++ suf') ++ wz))
  (hw1 : aligned m wa (pre' ++ suf' ++ wz) = true)
  (hw2 : aligned m (wa ++ (pre' ++ suf')) wz = true)
  (hap : aligned m (wa ++ pre') (suf' ++ wz) = true)
  (sub : Span) (o : Fam.Window.Obs) (sa smid sz : Text)

include hwf hw1 hw2 hap in
/-- `next_position`, `line_start_position`, `line_end_position` and
`next_line_start_position` at an aligned position inside the window. -/
theorem C20_window_nav
    (ho : Fam.Window.model m (wa ++ (pre' ++ suf') ++ wz)
      ⟨canon m wa, canon m (wa ++ (pre' ++ suf'))⟩ (canon m (wa ++ pre')) sub = .ok o) :
    let S := Fam.Window.ofSpec
      (windowSpec m wa (pre' ++ suf') wz (wa ++ pre') (suf' ++ wz) sa smid sz)
    o.next = S.next ∧ o.lineStart = S.lineStart ∧ o.lineEnd = S.lineEnd ∧
      o.nextLineStart = S.nextLineStart := by
  rw [window_model_eq m wa (pre' ++ suf') wz hwf hw1 hw2] at ho
  injection ho with ho; subst ho
  exact ⟨wfield_next hwf hw2 hap, wfield_lineStart hwf hw1, wfield_lineEnd hwf hw2 hap,
    wfield_nextLineStart hwf hw2 hap⟩

end

section
variable (m : Metrics) (_htab : 1 ≤ m.tab) (wa a' smid z' wz : Text)
  (hwf : Text.WF (wa ++ (a' ++ smid ++ z') ++ wz))
  (hw1 : aligned m wa (a' ++ smid ++ z' ++ wz) = true)
  (hw2 : aligned m (wa ++ (a' ++ smid ++ z')) wz = true)
  (hs1 : aligned m (wa ++ a') (smid ++ (z' ++ wz)) = true)
  (hs2 : aligned m (wa ++ a' ++ smid) (z' ++ wz) = true)
  (p : Pos) (o : Fam.Window.Obs) (pre suf : Text)

include hwf hw1 hw2 hs2 in
/-- `widen_to_line` of a sub-span inside the window: the parent's widening clamped to the
window. -/
theorem C20_window_widen
    (ho : Fam.Window.model m (wa ++ (a' ++ smid ++ z') ++ wz)
      ⟨canon m wa, canon m (wa ++ (a' ++ smid ++ z'))⟩ p
      ⟨canon m (wa ++ a'), canon m (wa ++ a' ++ smid)⟩ = .ok o) :
    o.widen = (Fam.Window.ofSpec
      (windowSpec m wa (a' ++ smid ++ z') wz pre suf (wa ++ a') smid (z' ++ wz))).widen := by
  rw [window_model_eq m wa (a' ++ smid ++ z') wz hwf hw1 hw2] at ho
  injection ho with ho; subst ho
  exact wfield_widen hwf hw1 hw2 hs2

include hwf hw1 hw2 hs1 hs2 in
/-- `split_lines` of a sub-span inside the window: the parent's pieces.  The family collects
with 64 calls of `next()`, hence the bound on the number of lines under the sub-span (the
lemma `wfield_split` is the same statement for every sufficient fuel). -/
theorem C20_window_split (hlines : (linesOf m smid).length < 64)
    (ho : Fam.Window.model m (wa ++ (a' ++ smid ++ z') ++ wz)
      ⟨canon m wa, canon m (wa ++ (a' ++ smid ++ z'))⟩ p
      ⟨canon m (wa ++ a'), canon m (wa ++ a' ++ smid)⟩ = .ok o) :
    o.split = (Fam.Window.ofSpec
      (windowSpec m wa (a' ++ smid ++ z') wz pre suf (wa ++ a') smid (z' ++ wz))).split := by
  rw [window_model_eq m wa (a' ++ smid ++ z') wz hwf hw1 hw2] at ho
  injection ho with ho; subst ho
  exact wfield_split hwf hs1 hs2 64 (by omega)

include hwf hs1 hs2 in
/-- The same for any number of `next()` calls that suffices (no bound on the text). -/
theorem C20_window_split_anyfuel (fuel : Nat) (hfuel : (linesOf m smid).length + 1 ≤ fuel) :
    Fam.Window.collectSpans fuel (SplitLines.ofSpan
        ⟨canon m (wa ++ a'), canon m (wa ++ a' ++ smid)⟩ ⟨a' ++ smid ++ z', m, canon m wa⟩) =
      .ok ((splitSpec m (wa ++ a') smid (z' ++ wz)).map (·.2)) :=
  wfield_split hwf hs1 hs2 fuel hfuel

end

section
variable (m : Metrics) (_htab : 1 ≤ m.tab) (wa pre' suf' wz : Text)
  (hwf : Text.WF (wa ++ (pre' ++ suf') ++ wz))
  (hw1 : aligned m wa (pre' ++ suf' ++ wz) = true)
  (hw2 : aligned m (wa ++ (pre' ++ suf')) wz = true)
  (sub : Span) (o : Fam.Window.Obs) (sa smid sz : Text)

include hwf hw1 hw2 in
/-- `previous_position` at an aligned position inside any window (no restriction on the
window's start column): the parent's answer if it lies inside the window, else `none`. -/
theorem C20_window_prev
    (ho : Fam.Window.model m (wa ++ (pre' ++ suf') ++ wz)
      ⟨canon m wa, canon m (wa ++ (pre' ++ suf'))⟩ (canon m (wa ++ pre')) sub = .ok o) :
    o.prev = (Fam.Window.ofSpec
      (windowSpec m wa (pre' ++ suf') wz (wa ++ pre') (suf' ++ wz) sa smid sz)).prev := by
  rw [window_model_eq m wa (pre' ++ suf') wz hwf hw1 hw2] at ho
  injection ho with ho; subst ho
  exact wfield_prev hwf hw1

include hwf hw1 hw2 in
/-- `previous_line_end_position` at an aligned position inside any window: the parent's answer
if it lies inside the window, else `none`. -/
theorem C20_window_prevLineEnd
    (ho : Fam.Window.model m (wa ++ (pre' ++ suf') ++ wz)
      ⟨canon m wa, canon m (wa ++ (pre' ++ suf'))⟩ (canon m (wa ++ pre')) sub = .ok o) :
    o.prevLineEnd = (Fam.Window.ofSpec
      (windowSpec m wa (pre' ++ suf') wz (wa ++ pre') (suf' ++ wz) sa smid sz)).prevLineEnd := by
  rw [window_model_eq m wa (pre' ++ suf') wz hwf hw1 hw2] at ho
  injection ho with ho; subst ho
  exact wfield_prevLineEnd hwf hw1

include hwf hw1 hw2 in
/-- Corollary kept under its old name: the statement for windows starting at column 0 (all
that held before the repair of F13c). -/
theorem C20_window_prev_partial (_hcol : (canon m wa).col = 0)
    (ho : Fam.Window.model m (wa ++ (pre' ++ suf') ++ wz)
      ⟨canon m wa, canon m (wa ++ (pre' ++ suf'))⟩ (canon m (wa ++ pre')) sub = .ok o) :
    o.prev = (Fam.Window.ofSpec
      (windowSpec m wa (pre' ++ suf') wz (wa ++ pre') (suf' ++ wz) sa smid sz)).prev :=
  C20_window_prev m wa pre' suf' wz hwf hw1 hw2 sub o sa smid sz ho

include hwf hw1 hw2 in
/-- Corollary kept under its old name (windows starting at column 0). -/
theorem C20_window_prevLineEnd_partial (_hcol : (canon m wa).col = 0)
    (ho : Fam.Window.model m (wa ++ (pre' ++ suf') ++ wz)
      ⟨canon m wa, canon m (wa ++ (pre' ++ suf'))⟩ (canon m (wa ++ pre')) sub = .ok o) :
    o.prevLineEnd = (Fam.Window.ofSpec
      (windowSpec m wa (pre' ++ suf') wz (wa ++ pre') (suf' ++ wz) sa smid sz)).prevLineEnd :=
  C20_window_prevLineEnd m wa pre' suf' wz hwf hw1 hw2 sub o sa smid sz ho

end

/-- At the window's start both answers are `none` (whatever the parent has before the
window); this is also the instance `pre' = []` of the two theorems above. -/
theorem C20_window_prev_at_start (m : Metrics) (_htab : 1 ≤ m.tab) (wa wmid : Text)
    (hwf : Text.WF (wa ++ wmid)) :
    Source.previousPosition ⟨wmid, m, canon m wa⟩ (canon m wa) = .ok none ∧
      Source.previousLineEndPosition ⟨wmid, m, canon m wa⟩ (canon m wa) = .ok none := by
  have hp := win_prev (m := m) (wa := wa) (pre' := []) (suf' := wmid) (by simpa using hwf)
    (by simp)
  simp only [List.nil_append, List.append_nil, lastUnit_nil, Option.map_none] at hp
  have hls : Source.lineStartPosition ⟨wmid, m, canon m wa⟩ (canon m wa) = .ok (canon m wa) := by
    have := win_lineStart (m := m) (wa := wa) (pre' := [])
      (by simpa using (Text.WF_append.mp hwf).1) (by simp) wmid
    simpa using this
  refine ⟨hp, ?_⟩
  unfold Source.previousLineEndPosition
  simp only [hls, Res.ok_bind, hp]

/-- The unrestricted statement for `previous_position` (no column hypothesis).  It was false
before the repair of F13c (commit ef86ab4); it holds now: `C20_window_prev_statement_holds`. -/
def C20_window_prev_statement : Prop :=
  ∀ (m : Metrics), 1 ≤ m.tab → ∀ (wa pre' suf' wz : Text),
    Text.WF (wa ++ (pre' ++ suf') ++ wz) →
    aligned m wa (pre' ++ suf' ++ wz) = true →
    aligned m (wa ++ (pre' ++ suf')) wz = true →
    aligned m (wa ++ pre') (suf' ++ wz) = true →
    ∀ (sub : Span) (o : Fam.Window.Obs) (sa smid sz : Text),
    Fam.Window.model m (wa ++ (pre' ++ suf') ++ wz)
      ⟨canon m wa, canon m (wa ++ (pre' ++ suf'))⟩ (canon m (wa ++ pre')) sub = .ok o →
    o.prev = (Fam.Window.ofSpec
      (windowSpec m wa (pre' ++ suf') wz (wa ++ pre') (suf' ++ wz) sa smid sz)).prev

/-- The unrestricted `previous_position` statement holds. -/
theorem C20_window_prev_statement_holds : C20_window_prev_statement :=
  fun m _ wa pre' suf' wz hwf hw1 hw2 _ sub o sa smid sz ho =>
    C20_window_prev m wa pre' suf' wz hwf hw1 hw2 sub o sa smid sz ho

/-- The former witness of finding F13c: parent `a⇥` (LF, tab 4), window = bytes 1..2 (the
tab, starting at ⟨1, line 0, column 1⟩), asked at the window's end ⟨2, 0, 4⟩.  The window's
`previous_position` now answers ⟨1, 0, 1⟩ — the parent's answer and the spec's (before the
repair it answered column 0). -/
theorem C20_former_F13c_witness :
    let m : Metrics := ⟨.lf, 4⟩
    let wa : Text := [⟨97, 1, 1⟩]
    let wmid : Text := [⟨9, 1, 0⟩]
    let w : Span := ⟨⟨1, 0, 1⟩, ⟨2, 0, 4⟩⟩
    w = ⟨canon m wa, canon m (wa ++ wmid)⟩ ∧
    Source.previousPosition ⟨wmid, m, ⟨1, 0, 1⟩⟩ ⟨2, 0, 4⟩ = .ok (some ⟨1, 0, 1⟩) ∧
    (∃ o, Fam.Window.model m (wa ++ wmid ++ []) w ⟨2, 0, 4⟩ w = .ok o ∧
      o.prev = .ok (some ⟨1, 0, 1⟩)) ∧
    (Fam.Window.ofSpec (windowSpec m wa wmid [] (wa ++ wmid) [] wa wmid [])).prev =
      .ok (some ⟨1, 0, 1⟩) := by
  have hc1 : canon ⟨.lf, 4⟩ [⟨97, 1, 1⟩] = ⟨1, 0, 1⟩ := by
    simp [canon, canonFrom, linesOf, breakAt, lbCodes, stripCodes, colWidth, bytes, Pos.zero]
  have hc2 : canon ⟨.lf, 4⟩ ([⟨97, 1, 1⟩] ++ [⟨9, 1, 0⟩]) = ⟨2, 0, 4⟩ := by
    simp [canon, canonFrom, linesOf, breakAt, lbCodes, stripCodes, colWidth, bytes, Pos.zero]
  refine ⟨by rw [hc1, hc2], former_F13c_prev, ?_, ?_⟩
  · have hwf : Text.WF ([⟨97, 1, 1⟩] ++ [⟨9, 1, 0⟩] ++ ([] : Text)) := by
      intro c hc; simp at hc; rcases hc with rfl | rfl <;> decide
    have := window_model_eq ⟨.lf, 4⟩ [⟨97, 1, 1⟩] [⟨9, 1, 0⟩] [] hwf (by decide) (by decide)
      ⟨2, 0, 4⟩ ⟨⟨1, 0, 1⟩, ⟨2, 0, 4⟩⟩
    rw [hc1, hc2] at this
    exact ⟨_, this, former_F13c_prev⟩
  · simp only [Fam.Window.ofSpec, windowSpec, navSpec, lastUnit]
    simp [breakBefore, lbCodes, stripCodes, keepIfIn]
    simp [canon, canonFrom, linesOf, breakAt, lbCodes, stripCodes, colWidth, bytes, Pos.zero]

/-- Non-vacuity: CRLF parent `ab⏎cd`, window = `b⏎c` (starts mid-line at column 1), inner cut
after the line ending: all hypotheses of the theorems above hold. -/
example :
    let m : Metrics := ⟨.crlf, 4⟩
    let wa : Text := [⟨97, 1, 1⟩]
    let pre' : Text := [⟨98, 1, 1⟩, ⟨13, 1, 0⟩, ⟨10, 1, 0⟩]
    let suf' : Text := [⟨99, 1, 1⟩]
    let wz : Text := [⟨100, 1, 1⟩]
    1 ≤ m.tab ∧ Text.WF (wa ++ (pre' ++ suf') ++ wz) ∧
      aligned m wa (pre' ++ suf' ++ wz) = true ∧ aligned m (wa ++ (pre' ++ suf')) wz = true ∧
      aligned m (wa ++ pre') (suf' ++ wz) = true ∧ (canon m wa).col ≠ 0 := by
  refine ⟨by decide, ?_, by decide, by decide, by decide, ?_⟩
  · intro c hc; simp at hc; rcases hc with rfl | rfl | rfl | rfl | rfl | rfl <;> decide
  · simp [canon, canonFrom, linesOf, breakAt, lbCodes, stripCodes, colWidth, bytes, Pos.zero]

/-- Non-vacuity for `C20_window_prev` on the interesting kind of window: LF parent
`a⇥b⇥c`, tab 4, window = `b⇥` starting mid-line after a tab (at ⟨2, line 0, column 4⟩), asked
at its end ⟨4, 0, 8⟩.  The hypotheses hold, the window starts at a non-zero column, and the
answer is the parent's ⟨3, 0, 5⟩ (measured from column 0 it would be column 1). -/
example :
    let m : Metrics := ⟨.lf, 4⟩
    let wa : Text := [⟨97, 1, 1⟩, ⟨9, 1, 0⟩]
    let pre' : Text := [⟨98, 1, 1⟩, ⟨9, 1, 0⟩]
    let suf' : Text := []
    let wz : Text := [⟨99, 1, 1⟩]
    1 ≤ m.tab ∧ Text.WF (wa ++ (pre' ++ suf') ++ wz) ∧
      aligned m wa (pre' ++ suf' ++ wz) = true ∧ aligned m (wa ++ (pre' ++ suf')) wz = true ∧
      aligned m (wa ++ pre') (suf' ++ wz) = true ∧
      canon m wa = ⟨2, 0, 4⟩ ∧ canon m (wa ++ pre') = ⟨4, 0, 8⟩ ∧
      Source.previousPosition ⟨pre' ++ suf', m, canon m wa⟩ (canon m (wa ++ pre')) =
        .ok (some ⟨3, 0, 5⟩) := by
  have hwf : Text.WF ([⟨97, 1, 1⟩, ⟨9, 1, 0⟩] ++ ([⟨98, 1, 1⟩, ⟨9, 1, 0⟩] ++ []) ++
      ([⟨99, 1, 1⟩] : Text)) := by
    intro c hc; simp at hc; rcases hc with rfl | rfl | rfl | rfl | rfl <;> decide
  have hc1 : canon ⟨.lf, 4⟩ [⟨97, 1, 1⟩, ⟨9, 1, 0⟩] = ⟨2, 0, 4⟩ := by
    simp [canon, canonFrom, linesOf, breakAt, lbCodes, stripCodes, colWidth, bytes, Pos.zero]
  have hc2 : canon ⟨.lf, 4⟩ ([⟨97, 1, 1⟩, ⟨9, 1, 0⟩] ++ [⟨98, 1, 1⟩, ⟨9, 1, 0⟩]) = ⟨4, 0, 8⟩ := by
    simp [canon, canonFrom, linesOf, breakAt, lbCodes, stripCodes, colWidth, bytes, Pos.zero]
  have hc3 : canon ⟨.lf, 4⟩ ([⟨97, 1, 1⟩, ⟨9, 1, 0⟩] ++ [⟨98, 1, 1⟩]) = ⟨3, 0, 5⟩ := by
    simp [canon, canonFrom, linesOf, breakAt, lbCodes, stripCodes, colWidth, bytes, Pos.zero]
  refine ⟨by decide, hwf, by decide, by decide, by decide, hc1, hc2, ?_⟩
  have := win_prev (m := ⟨.lf, 4⟩) (wa := [⟨97, 1, 1⟩, ⟨9, 1, 0⟩])
    (pre' := [⟨98, 1, 1⟩, ⟨9, 1, 0⟩]) (suf' := [])
    (by simpa using (Text.WF_append.mp hwf).1) (by decide)
  rw [this]
  simp [lastUnit, breakBefore, lbCodes, stripCodes]
  simpa using hc3

/-- Non-vacuity for `C20_window_prevLineEnd` on the same kind of window: LF parent
`a⇥b⏎c`, tab 4, window = `b⏎c` starting mid-line after a tab, asked at its end ⟨5, 1, 1⟩: the
answer is the end of the window's first line at the parent's column, ⟨3, 0, 5⟩. -/
example :
    let m : Metrics := ⟨.lf, 4⟩
    let wa : Text := [⟨97, 1, 1⟩, ⟨9, 1, 0⟩]
    let pre' : Text := [⟨98, 1, 1⟩, ⟨10, 1, 0⟩, ⟨99, 1, 1⟩]
    let suf' : Text := []
    let wz : Text := []
    1 ≤ m.tab ∧ Text.WF (wa ++ (pre' ++ suf') ++ wz) ∧
      aligned m wa (pre' ++ suf' ++ wz) = true ∧ aligned m (wa ++ (pre' ++ suf')) wz = true ∧
      aligned m (wa ++ pre') (suf' ++ wz) = true ∧
      canon m wa = ⟨2, 0, 4⟩ ∧ canon m (wa ++ pre') = ⟨5, 1, 1⟩ ∧
      Source.previousLineEndPosition ⟨pre' ++ suf', m, canon m wa⟩ (canon m (wa ++ pre')) =
        .ok (some ⟨3, 0, 5⟩) := by
  have hwf : Text.WF ([⟨97, 1, 1⟩, ⟨9, 1, 0⟩] ++ ([⟨98, 1, 1⟩, ⟨10, 1, 0⟩, ⟨99, 1, 1⟩] ++ []) ++
      ([] : Text)) := by
    intro c hc; simp at hc; rcases hc with rfl | rfl | rfl | rfl | rfl <;> decide
  have hc1 : canon ⟨.lf, 4⟩ [⟨97, 1, 1⟩, ⟨9, 1, 0⟩] = ⟨2, 0, 4⟩ := by
    simp [canon, canonFrom, linesOf, breakAt, lbCodes, stripCodes, colWidth, bytes, Pos.zero]
  have hc2 : canon ⟨.lf, 4⟩ ([⟨97, 1, 1⟩, ⟨9, 1, 0⟩] ++ [⟨98, 1, 1⟩, ⟨10, 1, 0⟩, ⟨99, 1, 1⟩]) =
      ⟨5, 1, 1⟩ := by
    simp [canon, canonFrom, linesOf, breakAt, lbCodes, stripCodes, colWidth, bytes, Pos.zero]
  refine ⟨by decide, hwf, by decide, by decide, by decide, hc1, hc2, ?_⟩
  have := wfield_prevLineEnd (m := ⟨.lf, 4⟩) (wa := [⟨97, 1, 1⟩, ⟨9, 1, 0⟩])
    (pre' := [⟨98, 1, 1⟩, ⟨10, 1, 0⟩, ⟨99, 1, 1⟩]) (suf' := []) (wz := []) hwf (by decide)
  rw [this]
  simp [navSpec, keepIfIn, curLinePre, lbLen]
  simp [canon, canonFrom, linesOf, breakAt, lbCodes, stripCodes, colWidth, bytes, Pos.zero]

/-- A window of a window is the window of the document.  Cut the document
`oa ++ (a2 ++ wmid ++ z2) ++ oz` at four aligned character boundaries.  Take the outer span
(over `a2 ++ wmid ++ z2`) either as `parent.clipped(outer)` (route `c`) or as a fresh source over
the outer bytes given `with_start_position(outer.start())` (any other route), and clip the inner
span (over `wmid`) out of THAT.  The resulting window — and therefore every observation the window
family makes of it: text, start, end, full span, the six navigation answers at `p`, `widen_to_line`
and `split_lines` of `sub` — is exactly the one obtained by clipping the inner span out of the
document directly (`Fam.Window.model`); in particular the nested clip does not panic.  Hence a
window cut out of a window, or out of a source built with `with_start_position`, answers exactly
like the window cut out of the document, and every C20 theorem about `model` above holds for
nested windows.  Every line-ending style, tab width and character widths; unbounded in the text;
any position `p` and span `sub`. -/
theorem C20_window_of_window (m : Metrics) (_htab : 1 ≤ m.tab) (oa a2 wmid z2 oz : Text)
    (hwf : Text.WF (oa ++ (a2 ++ wmid ++ z2) ++ oz))
    (h1 : aligned m oa ((a2 ++ wmid ++ z2) ++ oz) = true)
    (h2 : aligned m (oa ++ a2) (wmid ++ z2 ++ oz) = true)
    (h3 : aligned m (oa ++ a2 ++ wmid) (z2 ++ oz) = true)
    (h4 : aligned m (oa ++ (a2 ++ wmid ++ z2)) oz = true)
    (route : Char) (p : Pos) (sub : Span) :
    let t : Text := oa ++ (a2 ++ wmid ++ z2) ++ oz
    let outer : Span := ⟨canon m oa, canon m (oa ++ (a2 ++ wmid ++ z2))⟩
    let w : Span := ⟨canon m (oa ++ a2), canon m (oa ++ a2 ++ wmid)⟩
    Fam.Window.modelNested m t route outer w p sub = Fam.Window.model m t w p sub :=
  modelNested_eq_model m oa a2 wmid z2 oz hwf h1 h2 h3 h4 route p sub

/-- The nested clip itself: out of a source that starts at the canonical position of `oa`, the
span between two aligned cuts yields the inner window at the span's start (no panic). -/
theorem C20_clipped_nested (m : Metrics) (_htab : 1 ≤ m.tab) (oa a2 wmid z2 oz : Text)
    (hwf : Text.WF (oa ++ (a2 ++ wmid ++ z2) ++ oz))
    (h1 : aligned m oa ((a2 ++ wmid ++ z2) ++ oz) = true)
    (h2 : aligned m (oa ++ a2) (wmid ++ z2 ++ oz) = true)
    (h3 : aligned m (oa ++ a2 ++ wmid) (z2 ++ oz) = true)
    (h4 : aligned m (oa ++ (a2 ++ wmid ++ z2)) oz = true) :
    Source.clipped ⟨a2 ++ wmid ++ z2, m, canon m oa⟩
        ⟨canon m (oa ++ a2), canon m (oa ++ a2 ++ wmid)⟩ =
      .ok ⟨wmid, m, canon m (oa ++ a2)⟩ :=
  clipped_nested m oa a2 wmid z2 oz hwf h1 h2 h3 h4

/-- Non-vacuity for `C20_window_of_window`: LF, tab 4, document `a⏎bc⏎d`, outer window `bc⏎`
(starting on line 1), inner window `c` (starting mid-line at ⟨3, 1, 1⟩).  The hypotheses hold, and
on both routes the nested observation is the (defined) observation of the document's window. -/
example :
    let m : Metrics := ⟨.lf, 4⟩
    let oa : Text := [⟨97, 1, 1⟩, ⟨10, 1, 0⟩]
    let a2 : Text := [⟨98, 1, 1⟩]
    let wmid : Text := [⟨99, 1, 1⟩]
    let z2 : Text := [⟨10, 1, 0⟩]
    let oz : Text := [⟨100, 1, 1⟩]
    let t : Text := oa ++ (a2 ++ wmid ++ z2) ++ oz
    let outer : Span := ⟨canon m oa, canon m (oa ++ (a2 ++ wmid ++ z2))⟩
    let w : Span := ⟨canon m (oa ++ a2), canon m (oa ++ a2 ++ wmid)⟩
    1 ≤ m.tab ∧ Text.WF t ∧
      aligned m oa ((a2 ++ wmid ++ z2) ++ oz) = true ∧
      aligned m (oa ++ a2) (wmid ++ z2 ++ oz) = true ∧
      aligned m (oa ++ a2 ++ wmid) (z2 ++ oz) = true ∧
      aligned m (oa ++ (a2 ++ wmid ++ z2)) oz = true ∧
      outer = ⟨⟨2, 1, 0⟩, ⟨5, 2, 0⟩⟩ ∧ w = ⟨⟨3, 1, 1⟩, ⟨4, 1, 2⟩⟩ ∧
      ∀ (p : Pos) (sub : Span), ∃ o,
        Fam.Window.modelNested m t 'c' outer w p sub = .ok o ∧
        Fam.Window.modelNested m t 's' outer w p sub = .ok o ∧
        Fam.Window.model m t w p sub = .ok o ∧ o.text = .ok wmid ∧ o.start = .ok ⟨3, 1, 1⟩ := by
  have hwf : Text.WF ([⟨97, 1, 1⟩, ⟨10, 1, 0⟩] ++ ([⟨98, 1, 1⟩] ++ [⟨99, 1, 1⟩] ++ [⟨10, 1, 0⟩]) ++
      ([⟨100, 1, 1⟩] : Text)) := by
    intro c hc; simp at hc; rcases hc with rfl | rfl | rfl | rfl | rfl | rfl <;> decide
  have hc0 : canon ⟨.lf, 4⟩ [⟨97, 1, 1⟩, ⟨10, 1, 0⟩] = ⟨2, 1, 0⟩ := by
    simp [canon, canonFrom, linesOf, breakAt, lbCodes, stripCodes, colWidth, bytes, Pos.zero]
  have hc1 : canon ⟨.lf, 4⟩ ([⟨97, 1, 1⟩, ⟨10, 1, 0⟩] ++ [⟨98, 1, 1⟩]) = ⟨3, 1, 1⟩ := by
    simp [canon, canonFrom, linesOf, breakAt, lbCodes, stripCodes, colWidth, bytes, Pos.zero]
  have hc2 : canon ⟨.lf, 4⟩ ([⟨97, 1, 1⟩, ⟨10, 1, 0⟩] ++ [⟨98, 1, 1⟩] ++ [⟨99, 1, 1⟩]) =
      ⟨4, 1, 2⟩ := by
    simp [canon, canonFrom, linesOf, breakAt, lbCodes, stripCodes, colWidth, bytes, Pos.zero]
  have hc3 : canon ⟨.lf, 4⟩ ([⟨97, 1, 1⟩, ⟨10, 1, 0⟩] ++
      ([⟨98, 1, 1⟩] ++ [⟨99, 1, 1⟩] ++ [⟨10, 1, 0⟩])) = ⟨5, 2, 0⟩ := by
    simp [canon, canonFrom, linesOf, breakAt, lbCodes, stripCodes, colWidth, bytes, Pos.zero]
  refine ⟨by decide, hwf, by decide, by decide, by decide, by decide, by rw [hc0, hc3],
    by rw [hc1, hc2], ?_⟩
  intro p sub
  have hN := fun r => C20_window_of_window ⟨.lf, 4⟩ (by decide) [⟨97, 1, 1⟩, ⟨10, 1, 0⟩]
    [⟨98, 1, 1⟩] [⟨99, 1, 1⟩] [⟨10, 1, 0⟩] [⟨100, 1, 1⟩] hwf (by decide) (by decide) (by decide)
    (by decide) r p sub
  have et : [⟨97, 1, 1⟩, ⟨10, 1, 0⟩] ++ ([⟨98, 1, 1⟩] ++ [⟨99, 1, 1⟩] ++ [⟨10, 1, 0⟩]) ++
      ([⟨100, 1, 1⟩] : Text) =
      ([⟨97, 1, 1⟩, ⟨10, 1, 0⟩] ++ [⟨98, 1, 1⟩]) ++ [⟨99, 1, 1⟩] ++ ([⟨10, 1, 0⟩] ++ [⟨100, 1, 1⟩]) := by
    simp
  have hM := window_model_eq ⟨.lf, 4⟩ ([⟨97, 1, 1⟩, ⟨10, 1, 0⟩] ++ [⟨98, 1, 1⟩]) [⟨99, 1, 1⟩]
    ([⟨10, 1, 0⟩] ++ [⟨100, 1, 1⟩]) (by rw [← et]; exact hwf) (by decide) (by decide) p sub
  rw [← et] at hM
  refine ⟨_, ?_, ?_, hM, rfl, ?_⟩
  · rw [← hM]; exact hN 'c'
  · rw [← hM]; exact hN 's'
  · simp only [winObs, Source.startPosition, hc1]

/-- Owned / borrowed round trip: a source text is determined by its text, metrics and start
offset, so every window answer is the same for two sources agreeing on these three. -/
theorem C20_owned_roundtrip (s1 s2 : Source) (ht : s1.text = s2.text)
    (hm : s1.metrics = s2.metrics) (ho : s1.offset = s2.offset) :
    s1 = s2 ∧ ∀ p sub, winObs s1 p sub = winObs s2 p sub := by
  have := Source.ext' ht hm ho
  exact ⟨this, fun p sub => by rw [this]⟩

end Tephra.Props
