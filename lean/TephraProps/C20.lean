/-
  C20 — windowed source texts report parent-document positions.

  English: clip any source text to a span between two aligned character
  boundaries (`SourceText::clipped`, debug assertions on).  The clip succeeds and
  is the text under the span, starting at the span's start position
  (`C20_clipped`).  Asked about any aligned position inside it, or any sub-span
  inside it, the window answers what the parent document answers, restricted to
  the window: its text / start / end / full span are the span's, `next_position`,
  `line_start_position`, `line_end_position`, `next_line_start_position`,
  `widen_to_line` and `split_lines` are the parent's answers clamped to (or
  dropped outside) the window.  Every line-ending style, tab width ≥ 1 and
  character widths; unbounded in the text.

  Known defect F13c (reproduced by the model, see `C20_finding_F13c`): when the
  window starts in the middle of a line, `previous_position` (stepping back over
  a tab, or back over a line ending onto the window's first line) re-measures the
  column from 0 instead of from the window's start column, so it and
  `previous_line_end_position` can report a wrong *column*.  These two fields are
  therefore proved only for windows that start at column 0
  (`C20_window_prev_partial`, `C20_window_prevLineEnd_partial`); the unrestricted
  statement `C20_window_prev_statement` is refuted (`C20_window_prev_statement_false`).

  Lean: `Fam.Window.model` (the observation the differential driver compares)
  against `Fam.Window.ofSpec (Spec.windowSpec …)`, field by field.  The window is
  `t = wa ++ wmid ++ wz`; an inner position is the cut `(wa ++ pre') | (suf' ++ wz)`
  with `wmid = pre' ++ suf'`; an inner sub-span is `(wa ++ a') | smid | (z' ++ wz)`
  with `wmid = a' ++ smid ++ z'`.
-/
import TephraProofs.WindowPrev

namespace Tephra.Props
open Tephra Tephra.Spec Tephra.LinesPf

/-- `clipped` succeeds on a span between two aligned cuts and yields the window. -/
theorem C20_clipped (m : Metrics) (_htab : 1 ≤ m.tab) (wa wmid wz : Text)
    (hwf : Text.WF (wa ++ wmid ++ wz))
    (hw1 : aligned m wa (wmid ++ wz) = true) (hw2 : aligned m (wa ++ wmid) wz = true) :
    let P : Source := ⟨wa ++ wmid ++ wz, m, Pos.zero⟩
    let w : Span := ⟨canon m wa, canon m (wa ++ wmid)⟩
    P.clipped w = .ok ⟨wmid, m, canon m wa⟩ :=
  clipped_correct m wa wmid wz hwf hw1 hw2

/-- The window observation is defined (no panic in `clipped`). -/
theorem C20_window_defined (m : Metrics) (_htab : 1 ≤ m.tab) (wa wmid wz : Text)
    (hwf : Text.WF (wa ++ wmid ++ wz))
    (hw1 : aligned m wa (wmid ++ wz) = true) (hw2 : aligned m (wa ++ wmid) wz = true)
    (p : Pos) (sub : Span) :
    ∃ o, Fam.Window.model m (wa ++ wmid ++ wz) ⟨canon m wa, canon m (wa ++ wmid)⟩ p sub = .ok o :=
  ⟨_, window_model_eq m wa wmid wz hwf hw1 hw2 p sub⟩

section
variable (m : Metrics) (_htab : 1 ≤ m.tab) (wa wmid wz : Text)
  (hwf : Text.WF (wa ++ wmid ++ wz))
  (hw1 : aligned m wa (wmid ++ wz) = true) (hw2 : aligned m (wa ++ wmid) wz = true)
  (p : Pos) (sub : Span) (o : Fam.Window.Obs)
  (pre suf sa smid sz : Text)

include hwf hw1 hw2 in
/-- text, start position, end position and full span of the window are the span's. -/
theorem C20_window_extent
    (ho : Fam.Window.model m (wa ++ wmid ++ wz) ⟨canon m wa, canon m (wa ++ wmid)⟩ p sub = .ok o) :
    let S := Fam.Window.ofSpec (windowSpec m wa wmid wz pre suf sa smid sz)
    o.text = S.text ∧ o.start = S.start ∧ o.end_ = S.end_ ∧ o.full = S.full := by
  rw [window_model_eq m wa wmid wz hwf hw1 hw2] at ho
  injection ho with ho; subst ho
  have hwf' := (Text.WF_append.mp hwf).1
  have hal := aligned_of_append_right hw1
  refine ⟨rfl, rfl, ?_, ?_⟩
  · exact win_end hwf' hal
  · exact wfield_full hwf' hal

end

section
variable (m : Metrics) (_htab : 1 ≤ m.tab) (wa pre' suf' wz : Text)
  (hwf : Text.WF (wa ++ (pre' ++ suf') ++ wz))
  (hw1 : aligned m wa (pre' ++ suf' ++ wz) = true)
  (hw2 : aligned m (wa ++ (pre' ++ suf')) wz = true)
  (hap : aligned m (wa ++ pre') (suf' ++ wz) = true)
  (sub : Span) (o : Fam.Window.Obs) (sa smid sz : Text)

include hwf hw1 hw2 hap in
/-- `next_position`, `line_start_position`, `line_end_position` and
`next_line_start_position` at an aligned position inside the window. -/
theorem C20_window_nav
    (ho : Fam.Window.model m (wa ++ (pre' ++ suf') ++ wz)
      ⟨canon m wa, canon m (wa ++ (pre' ++ suf'))⟩ (canon m (wa ++ pre')) sub = .ok o) :
    let S := Fam.Window.ofSpec
      (windowSpec m wa (pre' ++ suf') wz (wa ++ pre') (suf' ++ wz) sa smid sz)
    o.next = S.next ∧ o.lineStart = S.lineStart ∧ o.lineEnd = S.lineEnd ∧
      o.nextLineStart = S.nextLineStart := by
  rw [window_model_eq m wa (pre' ++ suf') wz hwf hw1 hw2] at ho
  injection ho with ho; subst ho
  exact ⟨wfield_next hwf hw2 hap, wfield_lineStart hwf hw1, wfield_lineEnd hwf hw2 hap,
    wfield_nextLineStart hwf hw2 hap⟩

end

section
variable (m : Metrics) (_htab : 1 ≤ m.tab) (wa a' smid z' wz : Text)
  (hwf : Text.WF (wa ++ (a' ++ smid ++ z') ++ wz))
  (hw1 : aligned m wa (a' ++ smid ++ z' ++ wz) = true)
  (hw2 : aligned m (wa ++ (a' ++ smid ++ z')) wz = true)
  (hs1 : aligned m (wa ++ a') (smid ++ (z' ++ wz)) = true)
  (hs2 : aligned m (wa ++ a' ++ smid) (z' ++ wz) = true)
  (p : Pos) (o : Fam.Window.Obs) (pre suf : Text)

include hwf hw1 hw2 hs2 in
/-- `widen_to_line` of a sub-span inside the window: the parent's widening clamped to the
window. -/
theorem C20_window_widen
    (ho : Fam.Window.model m (wa ++ (a' ++ smid ++ z') ++ wz)
      ⟨canon m wa, canon m (wa ++ (a' ++ smid ++ z'))⟩ p
      ⟨canon m (wa ++ a'), canon m (wa ++ a' ++ smid)⟩ = .ok o) :
    o.widen = (Fam.Window.ofSpec
      (windowSpec m wa (a' ++ smid ++ z') wz pre suf (wa ++ a') smid (z' ++ wz))).widen := by
  rw [window_model_eq m wa (a' ++ smid ++ z') wz hwf hw1 hw2] at ho
  injection ho with ho; subst ho
  exact wfield_widen hwf hw1 hw2 hs2

include hwf hw1 hw2 hs1 hs2 in
/-- `split_lines` of a sub-span inside the window: the parent's pieces.  The family collects
with 64 calls of `next()`, hence the bound on the number of lines under the sub-span (the
lemma `wfield_split` is the same statement for every sufficient fuel). -/
theorem C20_window_split (hlines : (linesOf m smid).length < 64)
    (ho : Fam.Window.model m (wa ++ (a' ++ smid ++ z') ++ wz)
      ⟨canon m wa, canon m (wa ++ (a' ++ smid ++ z'))⟩ p
      ⟨canon m (wa ++ a'), canon m (wa ++ a' ++ smid)⟩ = .ok o) :
    o.split = (Fam.Window.ofSpec
      (windowSpec m wa (a' ++ smid ++ z') wz pre suf (wa ++ a') smid (z' ++ wz))).split := by
  rw [window_model_eq m wa (a' ++ smid ++ z') wz hwf hw1 hw2] at ho
  injection ho with ho; subst ho
  exact wfield_split hwf hs1 hs2 64 (by omega)

include hwf hs1 hs2 in
/-- The same for any number of `next()` calls that suffices (no bound on the text). -/
theorem C20_window_split_anyfuel (fuel : Nat) (hfuel : (linesOf m smid).length + 1 ≤ fuel) :
    Fam.Window.collectSpans fuel (SplitLines.ofSpan
        ⟨canon m (wa ++ a'), canon m (wa ++ a' ++ smid)⟩ ⟨a' ++ smid ++ z', m, canon m wa⟩) =
      .ok ((splitSpec m (wa ++ a') smid (z' ++ wz)).map (·.2)) :=
  wfield_split hwf hs1 hs2 fuel hfuel

end

section
variable (m : Metrics) (_htab : 1 ≤ m.tab) (wa pre' suf' wz : Text)
  (hwf : Text.WF (wa ++ (pre' ++ suf') ++ wz))
  (hw1 : aligned m wa (pre' ++ suf' ++ wz) = true)
  (hw2 : aligned m (wa ++ (pre' ++ suf')) wz = true)
  (sub : Span) (o : Fam.Window.Obs) (sa smid sz : Text)

include hwf hw1 hw2 in
/-- `previous_position` inside a window that starts at column 0 (extra hypothesis `hcol`,
see finding F13c). -/
theorem C20_window_prev_partial (hcol : (canon m wa).col = 0)
    (ho : Fam.Window.model m (wa ++ (pre' ++ suf') ++ wz)
      ⟨canon m wa, canon m (wa ++ (pre' ++ suf'))⟩ (canon m (wa ++ pre')) sub = .ok o) :
    o.prev = (Fam.Window.ofSpec
      (windowSpec m wa (pre' ++ suf') wz (wa ++ pre') (suf' ++ wz) sa smid sz)).prev := by
  rw [window_model_eq m wa (pre' ++ suf') wz hwf hw1 hw2] at ho
  injection ho with ho; subst ho
  exact wfield_prev hcol hwf hw1

include hwf hw1 hw2 in
/-- `previous_line_end_position` inside a window that starts at column 0 (extra hypothesis
`hcol`, see finding F13c). -/
theorem C20_window_prevLineEnd_partial (hcol : (canon m wa).col = 0)
    (ho : Fam.Window.model m (wa ++ (pre' ++ suf') ++ wz)
      ⟨canon m wa, canon m (wa ++ (pre' ++ suf'))⟩ (canon m (wa ++ pre')) sub = .ok o) :
    o.prevLineEnd = (Fam.Window.ofSpec
      (windowSpec m wa (pre' ++ suf') wz (wa ++ pre') (suf' ++ wz) sa smid sz)).prevLineEnd := by
  rw [window_model_eq m wa (pre' ++ suf') wz hwf hw1 hw2] at ho
  injection ho with ho; subst ho
  exact wfield_prevLineEnd hcol hwf hw1

end

/-- The unrestricted statement for `previous_position` (no column hypothesis).  It does NOT
hold for the model (nor for the real code): see `C20_window_prev_statement_false`. -/
def C20_window_prev_statement : Prop :=
  ∀ (m : Metrics), 1 ≤ m.tab → ∀ (wa pre' suf' wz : Text),
    Text.WF (wa ++ (pre' ++ suf') ++ wz) →
    aligned m wa (pre' ++ suf' ++ wz) = true →
    aligned m (wa ++ (pre' ++ suf')) wz = true →
    aligned m (wa ++ pre') (suf' ++ wz) = true →
    ∀ (sub : Span) (o : Fam.Window.Obs) (sa smid sz : Text),
    Fam.Window.model m (wa ++ (pre' ++ suf') ++ wz)
      ⟨canon m wa, canon m (wa ++ (pre' ++ suf'))⟩ (canon m (wa ++ pre')) sub = .ok o →
    o.prev = (Fam.Window.ofSpec
      (windowSpec m wa (pre' ++ suf') wz (wa ++ pre') (suf' ++ wz) sa smid sz)).prev

/-- Finding F13c, concretely: parent `a⇥` (LF, tab 4), window = bytes 1..2 (the tab), asked at
the window's end.  The window's `previous_position` answers (1, line 0, column 0); the
parent's answer — and the spec's — is (1, line 0, column 1). -/
theorem C20_finding_F13c :
    let m : Metrics := ⟨.lf, 4⟩
    let wa : Text := [⟨97, 1, 1⟩]
    let wmid : Text := [⟨9, 1, 0⟩]
    let w : Span := ⟨⟨1, 0, 1⟩, ⟨2, 0, 4⟩⟩
    w = ⟨canon m wa, canon m (wa ++ wmid)⟩ ∧
    (∃ o, Fam.Window.model m (wa ++ wmid ++ []) w ⟨2, 0, 4⟩ w = .ok o ∧
      o.prev = .ok (some ⟨1, 0, 0⟩)) ∧
    (Fam.Window.ofSpec (windowSpec m wa wmid [] (wa ++ wmid) [] wa wmid [])).prev =
      .ok (some ⟨1, 0, 1⟩) := by
  have hc1 : canon ⟨.lf, 4⟩ [⟨97, 1, 1⟩] = ⟨1, 0, 1⟩ := by
    simp [canon, canonFrom, linesOf, breakAt, lbCodes, stripCodes, colWidth, bytes, Pos.zero]
  have hc2 : canon ⟨.lf, 4⟩ ([⟨97, 1, 1⟩] ++ [⟨9, 1, 0⟩]) = ⟨2, 0, 4⟩ := by
    simp [canon, canonFrom, linesOf, breakAt, lbCodes, stripCodes, colWidth, bytes, Pos.zero]
  refine ⟨by rw [hc1, hc2], ?_, ?_⟩
  · have hwf : Text.WF ([⟨97, 1, 1⟩] ++ [⟨9, 1, 0⟩] ++ ([] : Text)) := by
      intro c hc; simp at hc; rcases hc with rfl | rfl <;> decide
    have := window_model_eq ⟨.lf, 4⟩ [⟨97, 1, 1⟩] [⟨9, 1, 0⟩] [] hwf (by decide) (by decide)
      ⟨2, 0, 4⟩ ⟨⟨1, 0, 1⟩, ⟨2, 0, 4⟩⟩
    rw [hc1, hc2] at this
    exact ⟨_, this, finding_F13c_prev⟩
  · simp only [Fam.Window.ofSpec, windowSpec, navSpec, lastUnit]
    simp [breakBefore, lbCodes, stripCodes, keepIfIn]
    simp [canon, canonFrom, linesOf, breakAt, lbCodes, stripCodes, colWidth, bytes, Pos.zero]

/-- Finding F13c refutes the unrestricted `previous_position` statement. -/
theorem C20_window_prev_statement_false : ¬ C20_window_prev_statement := by
  intro h
  have hc1 : canon ⟨.lf, 4⟩ [⟨97, 1, 1⟩] = ⟨1, 0, 1⟩ := by
    simp [canon, canonFrom, linesOf, breakAt, lbCodes, stripCodes, colWidth, bytes, Pos.zero]
  have hc2 : canon ⟨.lf, 4⟩ ([⟨97, 1, 1⟩] ++ [⟨9, 1, 0⟩]) = ⟨2, 0, 4⟩ := by
    simp [canon, canonFrom, linesOf, breakAt, lbCodes, stripCodes, colWidth, bytes, Pos.zero]
  have hwf : Text.WF ([⟨97, 1, 1⟩] ++ ([⟨9, 1, 0⟩] ++ []) ++ ([] : Text)) := by
    intro c hc; simp at hc; rcases hc with rfl | rfl <;> decide
  have hm := window_model_eq ⟨.lf, 4⟩ [⟨97, 1, 1⟩] ([⟨9, 1, 0⟩] ++ []) [] hwf (by decide) (by decide)
    (canon ⟨.lf, 4⟩ ([⟨97, 1, 1⟩] ++ [⟨9, 1, 0⟩])) ⟨Pos.zero, Pos.zero⟩
  have := h ⟨.lf, 4⟩ (by decide) [⟨97, 1, 1⟩] [⟨9, 1, 0⟩] [] [] hwf (by decide) (by decide)
    (by decide) ⟨Pos.zero, Pos.zero⟩ _ [⟨97, 1, 1⟩] [⟨9, 1, 0⟩] [] hm
  have hspec := C20_finding_F13c.2.2
  simp only [List.append_nil] at this hspec
  rw [hspec] at this
  simp only [winObs, hc1, hc2] at this
  rw [finding_F13c_prev] at this
  simp at this

/-- Non-vacuity: CRLF parent `ab⏎cd`, window = `b⏎c` (starts mid-line at column 1), inner cut
after the line ending: all hypotheses of the theorems above hold. -/
example :
    let m : Metrics := ⟨.crlf, 4⟩
    let wa : Text := [⟨97, 1, 1⟩]
    let pre' : Text := [⟨98, 1, 1⟩, ⟨13, 1, 0⟩, ⟨10, 1, 0⟩]
    let suf' : Text := [⟨99, 1, 1⟩]
    let wz : Text := [⟨100, 1, 1⟩]
    1 ≤ m.tab ∧ Text.WF (wa ++ (pre' ++ suf') ++ wz) ∧
      aligned m wa (pre' ++ suf' ++ wz) = true ∧ aligned m (wa ++ (pre' ++ suf')) wz = true ∧
      aligned m (wa ++ pre') (suf' ++ wz) = true ∧ (canon m wa).col ≠ 0 := by
  refine ⟨by decide, ?_, by decide, by decide, by decide, ?_⟩
  · intro c hc; simp at hc; rcases hc with rfl | rfl | rfl | rfl | rfl | rfl <;> decide
  · simp [canon, canonFrom, linesOf, breakAt, lbCodes, stripCodes, colWidth, bytes, Pos.zero]

/-- Owned / borrowed round trip: a source text is determined by its text, metrics and start
offset, so every window answer is the same for two sources agreeing on these three. -/
theorem C20_owned_roundtrip (s1 s2 : Source) (ht : s1.text = s2.text)
    (hm : s1.metrics = s2.metrics) (ho : s1.offset = s2.offset) :
    s1 = s2 ∧ ∀ p sub, winObs s1 p sub = winObs s2 p sub := by
  have := Source.ext' ht hm ho
  exact ⟨this, fun p sub => by rw [this]⟩

end Tephra.Props
