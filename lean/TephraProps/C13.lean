/-
  C13 — parse errors identify the offending token and stay inside the source.
  INTERIM file.  Proved here about the model of the primitives (after the
  `fix:` commits): a failing `one` reports the consumed offending token with
  the span of exactly that token and the parse span taken *before* the advance;
  `any` / `any_index` / `end_of_text`, which fail after a lookahead, report the
  looked-ahead token's span.  The interpreter-wide theorem (every error span is
  a lexer position pair; C03 makes those canonical) is in progress; the `errors`
  family + oracle (run on every grammar-level case) carries the statement.
-/
import TephraModel.Run

namespace Tephra.Props
open Tephra

theorem C13_one_reports_offender (R : RunEnv) (n k : Nat) (lx lx' : Lx) (ctx : Ctx) (W : World) (t : Tok)
    (h : lx.next R.E = (some t, lx')) (hk : (t.kind == k) = false) :
    run R (n + 1) (.one k) lx ctx W =
      (.err ⟨[], .unexp lx.parseSpan lx'.tokenSpan (.token k) (.token t)⟩, W) := by
  simp [run, h, hk, mkErr]

theorem C13_any_reports_lookahead (R : RunEnv) (n : Nat) (ks : List Nat) (lx lx' : Lx) (ctx : Ctx) (W : World)
    (t : Tok) (hne : ks.isEmpty = false)
    (h : lx.peek R.E = (some t, lx')) (hk : ks.find? (· == t.kind) = none) :
    run R (n + 1) (.any ks) lx ctx W =
      (.err ⟨[], .unexp lx.parseSpan (lx'.peekTokenSpan.getD lx'.tokenSpan) (.tokens ks) (.token t)⟩, W) := by
  simp [run, hne, h, hk, mkErr]

end Tephra.Props
