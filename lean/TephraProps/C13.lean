/-
  C13 — parse errors identify the offending token and stay inside the source.

  Proved here about the model of the combinators (after the `fix:` commits):

  * `C13_one_reports_offender`, `C13_any_reports_lookahead` (shape of the error
    of a failing `one` / `any`).
  * `C13_spans_from_lexer` — first clause, interpreter-wide, every grammar:
    let `P` be a property of positions closed under the scanner at the lexer's
    metrics.  If every position stored in the incoming lexer satisfies `P` and
    every error already in the sink log has all its spans / positions in `P`,
    then after `run` (any fuel, grammar, context, world): a successful result
    hands back a lexer whose stored positions satisfy `P` and a value all of
    whose captured spans (`spanned`, at any depth) have both endpoints in `P`;
    a returned error has every span and position field in `P`; and so has every
    error in the sink log afterwards.  With `P` = "canonical position of the
    text" (which the scanner preserves, C03) this is: every span in every
    returned or reported error and every captured span lies in the source, on
    character boundaries, with the right line/column.  Nothing is assumed of the
    scanner beyond closure; unbounded in everything.
  * `C13_enclosing_start_le_end`, `C13_start_le_end` — `Span::enclosing` never
    builds a reversed span, and every span field of every error `run` returns
    or logs (and every captured span) has start ≤ end, for every grammar, with
    no hypothesis on the scanner at all.
  * `C13_one_unexpected` … `C13_leaf_unexpected` — unexpected-token clauses for
    the primitive leaves `one`, `any`, `any_index`, `seq`, `pred`,
    `end_of_text`, for a lexer related (`PegRefine.Abs`: scanner contract
    `ScanOK`, harness filter table) to a state `s` of the reference evaluator:
    if the leaf fails with `UnexpectedToken { es, ts, exp, found }` then `es`
    is the parse span before the call; `found = Token t` implies `t` is the
    first kept token the leaf could not accept (`s.pop`; for `seq ks` the first
    kept token after the matching prefix, `(seqStop ks s).2.pop`), it really is
    unacceptable (kind ≠ k / not in ks / predicate false), `ts` is exactly that
    token's span and `es` ends at or before its start; `found = EndOfText`
    implies no kept token remains.  (`end_of_text` never reports
    `found = EndOfText`: a stream that stops early is `UnrecognizedToken`.)
-/
import TephraModel.Run
import TephraProofs.RunSpans
import TephraProofs.LeafUnexpected

namespace Tephra.Props
open Tephra

theorem C13_one_reports_offender (R : RunEnv) (n k : Nat) (lx lx' : Lx) (ctx : Ctx) (W : World) (t : Tok)
    (h : lx.next R.E = (some t, lx')) (hk : (t.kind == k) = false) :
    run R (n + 1) (.one k) lx ctx W =
      (.err ⟨[], .unexp lx.parseSpan lx'.tokenSpan (.token k) (.token t)⟩, W) := by
  simp [run, h, hk, mkErr]

theorem C13_any_reports_lookahead (R : RunEnv) (n : Nat) (ks : List Nat) (lx lx' : Lx) (ctx : Ctx) (W : World)
    (t : Tok) (hne : ks.isEmpty = false)
    (h : lx.peek R.E = (some t, lx')) (hk : ks.find? (· == t.kind) = none) :
    run R (n + 1) (.any ks) lx ctx W =
      (.err ⟨[], .unexp lx.parseSpan (lx'.peekTokenSpan.getD lx'.tokenSpan) (.tokens ks) (.token t)⟩, W) := by
  simp [run, hne, h, hk, mkErr]

/-! ### first clause: every span comes from the lexer -/

/-- Every span / position of every returned or logged error, every captured
span and every position of the lexer handed back satisfies `P`. -/
theorem C13_spans_from_lexer (R : RunEnv) (P : Pos → Prop) (n : Nat) (g : G) (lx : Lx) (ctx : Ctx) (W : World)
    (hc : Closed R.E P lx.metrics) (hp : PosOK P lx) (hW : ∀ e ∈ W.log, ErrP P e.body) :
    (∀ v lx', (run R n g lx ctx W).1 = .ok v lx' → PosOK P lx' ∧ ValP P v) ∧
    (∀ e, (run R n g lx ctx W).1 = .err e → ErrP P e.body) ∧
    (∀ e ∈ (run R n g lx ctx W).2.log, ErrP P e.body) :=
  RunSpans.run_spans R P n g lx ctx W hc hp hW

/-- The same from a fresh lexer and an empty world (this is where `P Pos.zero` is used). -/
theorem C13_spans_from_new (R : RunEnv) (P : Pos → Prop) (h0 : P Pos.zero) (s0 : Nat) (m : Metrics) (len : Nat)
    (hc : Closed R.E P m) (n : Nat) (g : G) (ctx : Ctx) :
    (∀ v lx', (run R n g (Lexer.new s0 m len) ctx World.init).1 = .ok v lx' → PosOK P lx' ∧ ValP P v) ∧
    (∀ e, (run R n g (Lexer.new s0 m len) ctx World.init).1 = .err e → ErrP P e.body) ∧
    (∀ e ∈ (run R n g (Lexer.new s0 m len) ctx World.init).2.log, ErrP P e.body) :=
  RunSpans.run_spans R P n g _ ctx _ hc (LexInv.new_pos h0 s0 m len) (by simp [World.init])

theorem C13_enclosing_start_le_end (a b : Pos) : (Span.enclosing a b).s.byte ≤ (Span.enclosing a b).e.byte :=
  RunSpans.enclosing_le a b

/-- Every span of every returned or logged error and every captured span has start ≤ end. -/
theorem C13_start_le_end (R : RunEnv) (n : Nat) (g : G) (lx : Lx) (ctx : Ctx) (W : World)
    (hW : ∀ e ∈ W.log, ErrWF e.body) :
    (∀ v lx', (run R n g lx ctx W).1 = .ok v lx' → ValWF v) ∧
    (∀ e, (run R n g lx ctx W).1 = .err e → ErrWF e.body) ∧
    (∀ e ∈ (run R n g lx ctx W).2.log, ErrWF e.body) :=
  RunSpans.run_wf R n g lx ctx W hW

/-! ### unexpected-token clauses of the leaves -/

open Tephra.Spec PegRefine LeafErr

/-- `LeafErr.Unexp lx s1 es ts found` unfolded (so that the statements below can be read here). -/
theorem C13_Unexp_iff (lx : Lx) (s1 : PState) (es ts : Span) (found : Found) :
    Unexp lx s1 es ts found ↔
      (es = lx.parseSpan ∧
       (∀ t, found = .token t → ∃ r s', s1.pop = some (r, s') ∧ r.tok = t ∧ ts = ⟨r.start, r.stop⟩ ∧
          es.e.byte ≤ ts.s.byte) ∧
       (found = .eot → s1.pop = none)) := Iff.rfl

variable {R : RunEnv} {m : Metrics} {len : Nat}

theorem C13_one_unexpected (ok : ScanOK R.E m len) (hp : PassOK R.E) {lx : Lx} {s : PState}
    (a : Abs R.E m len lx s) (n k : Nat) (ctx : Ctx) (W : World) {es ts : Span} {exp : Expected} {found : Found}
    (h : (run R (n + 1) (.one k) lx ctx W).1 = .err ⟨[], .unexp es ts exp found⟩) :
    Unexp lx s es ts found ∧ exp = .token k ∧ ∀ t, found = .token t → (t.kind == k) = false :=
  one_unexpected ok hp a n k ctx W h

theorem C13_any_unexpected (ok : ScanOK R.E m len) (hp : PassOK R.E) {lx : Lx} {s : PState}
    (a : Abs R.E m len lx s) (n : Nat) (ks : List Nat) (ctx : Ctx) (W : World) {es ts : Span} {exp : Expected}
    {found : Found} (h : (run R (n + 1) (.any ks) lx ctx W).1 = .err ⟨[], .unexp es ts exp found⟩) :
    Unexp lx s es ts found ∧ exp = .tokens ks ∧ ∀ t, found = .token t → ks.find? (· == t.kind) = none :=
  any_unexpected ok hp a n ks ctx W h

theorem C13_anyIndex_unexpected (ok : ScanOK R.E m len) (hp : PassOK R.E) {lx : Lx} {s : PState}
    (a : Abs R.E m len lx s) (n : Nat) (ks : List Nat) (ctx : Ctx) (W : World) {es ts : Span} {exp : Expected}
    {found : Found} (h : (run R (n + 1) (.anyIndex ks) lx ctx W).1 = .err ⟨[], .unexp es ts exp found⟩) :
    Unexp lx s es ts found ∧ exp = .tokens ks ∧ ∀ t, found = .token t → position ks t.kind = none :=
  anyIndex_unexpected ok hp a n ks ctx W h

theorem C13_seq_unexpected (ok : ScanOK R.E m len) (hp : PassOK R.E) {lx : Lx} {s : PState}
    (a : Abs R.E m len lx s) (n : Nat) (ks : List Nat) (ctx : Ctx) (W : World) {es ts : Span} {exp : Expected}
    {found : Found} (h : (run R (n + 1) (.seq ks) lx ctx W).1 = .err ⟨[], .unexp es ts exp found⟩) :
    Unexp lx (seqStop ks s).2 es ts found ∧ ∃ k' rest, (seqStop ks s).1 = k' :: rest ∧ exp = .token k' ∧
      ∀ t, found = .token t → (t.kind == k') = false :=
  seq_unexpected ok hp a n ks ctx W h

theorem C13_pred_unexpected (ok : ScanOK R.E m len) (hp : PassOK R.E) {lx : Lx} {s : PState}
    (a : Abs R.E m len lx s) (n : Nat) (p : PE) (ctx : Ctx) (W : World) {es ts : Span} {exp : Expected}
    {found : Found} (h : (run R (n + 1) (.pred p) lx ctx W).1 = .err ⟨[], .unexp es ts exp found⟩) :
    Unexp lx s es ts found ∧ exp = .other ∧ ∀ t, found = .token t → p.eval t = false :=
  pred_unexpected ok hp a n p ctx W h

theorem C13_endOfText_unexpected (ok : ScanOK R.E m len) (hp : PassOK R.E) {lx : Lx} {s : PState}
    (a : Abs R.E m len lx s) (n : Nat) (ctx : Ctx) (W : World) {es ts : Span} {exp : Expected}
    {found : Found} (h : (run R (n + 1) .endOfText lx ctx W).1 = .err ⟨[], .unexp es ts exp found⟩) :
    Unexp lx s es ts found ∧ exp = .eot ∧ ∃ t, found = .token t :=
  endOfText_unexpected ok hp a n ctx W h

/-- All six leaves at once (`leafStop g s = s` except `leafStop (seq ks) s = (seqStop ks s).2`). -/
theorem C13_leaf_unexpected (ok : ScanOK R.E m len) (hp : PassOK R.E) {lx : Lx} {s : PState}
    (a : Abs R.E m len lx s) (n : Nat) (g : G) (hg : isLeaf g = true) (ctx : Ctx) (W : World) {es ts : Span}
    {exp : Expected} {found : Found}
    (h : (run R (n + 1) g lx ctx W).1 = .err ⟨[], .unexp es ts exp found⟩) :
    Unexp lx (leafStop g s) es ts found :=
  leaf_unexpected ok hp a n g hg ctx W h

/-! ### non-vacuity: a one-token text -/

/-- a scanner for a one-byte text: one token of kind 0 at position zero -/
def oneScan : Nat → Metrics → Pos → Option (Tok × Pos) × Nat := fun s _ p =>
  if p.byte = 0 then (some (⟨0, 0⟩, ⟨1, 0, 1⟩), s) else (none, s)

def oneEnv : RunEnv := ⟨⟨oneScan, passesMask⟩, []⟩

def oneP (p : Pos) : Prop := p = Pos.zero ∨ p = ⟨1, 0, 1⟩

theorem oneP_closed (m : Metrics) : Closed oneEnv.E oneP m := by
  intro s p tok adv s' _ h
  simp only [oneEnv, oneScan] at h
  split at h
  · cases h; exact Or.inr rfl
  · cases h

theorem oneScan_ok (m : Metrics) : ScanOK oneEnv.E m 1 := by
  constructor
  · intro s p tok adv s' h
    simp only [oneEnv, oneScan] at h
    split at h
    · cases h; simp_all
    · cases h
  · intro s p h
    simp only [oneEnv, oneScan]
    rw [if_neg (by omega)]

/-- `one 1` on the text whose only token has kind 0 fails with an
`UnexpectedToken` whose spans are the parse span before the call and the span of
the offending token. -/
theorem one_fails (m : Metrics) (ctx : Ctx) (W : World) :
    (run oneEnv 1 (.one 1) (Lexer.new 0 m 1) ctx W).1 =
      .err ⟨[], .unexp ⟨Pos.zero, Pos.zero⟩ ⟨Pos.zero, ⟨1, 0, 1⟩⟩ (.token 1) (.token ⟨0, 0⟩)⟩ := by
  simp only [run, Lexer.next, Lexer.new]
  rw [Lexer.nextLoop]
  simp [oneEnv, oneScan, Lexer.filtered, Pos.zero, Lexer.parseSpan, Lexer.tokenSpan, Span.enclosing, mkErr]

/-- Non-vacuity of `C13_spans_from_lexer` / `C13_spans_from_new`: the hypotheses
hold and the run produces an error with two non-trivial spans. -/
example : oneP Pos.zero ∧ Closed oneEnv.E oneP (⟨.lf, 4⟩ : Metrics) ∧
    ∃ e, (run oneEnv 1 (.one 1) (Lexer.new 0 ⟨.lf, 4⟩ 1) ⟨false, [], false⟩ World.init).1 = .err e :=
  ⟨Or.inl rfl, oneP_closed _, _, one_fails _ _ _⟩

/-- Non-vacuity of `C13_start_le_end`: same run. -/
example : (∀ e ∈ World.init.log, ErrWF e.body) ∧
    ∃ e, (run oneEnv 1 (.one 1) (Lexer.new 0 ⟨.lf, 4⟩ 1) ⟨false, [], false⟩ World.init).1 = .err e :=
  ⟨by simp [World.init], _, one_fails _ _ _⟩

/-- Non-vacuity of the leaf clauses: a related lexer/state pair on which `one 1`
fails with `UnexpectedToken`, `found = Token`. -/
example : ∃ (lx : Lx) (s : PState), ScanOK oneEnv.E (⟨.lf, 4⟩ : Metrics) 1 ∧ PassOK oneEnv.E ∧
    Abs oneEnv.E ⟨.lf, 4⟩ 1 lx s ∧
    (run oneEnv 1 (.one 1) lx ⟨false, [], false⟩ World.init).1 =
      .err ⟨[], .unexp ⟨Pos.zero, Pos.zero⟩ ⟨Pos.zero, ⟨1, 0, 1⟩⟩ (.token 1) (.token ⟨0, 0⟩)⟩ :=
  ⟨_, _, oneScan_ok _, fun _ _ => rfl, abs_new 0 (fun _ _ => rfl), one_fails _ _ _⟩

end Tephra.Props
