/-
  C13 — parse errors identify the offending token and stay inside the source.

  Proved here about the model of the combinators (after the `fix:` commits):

  * `C13_one_reports_offender`, `C13_any_reports_lookahead` (shape of the error
    of a failing `one` / `any`).
  * `C13_spans_from_lexer` — first clause, interpreter-wide, every grammar:
    let `P` be a property of positions closed under the scanner at the lexer's
    metrics.  If every position stored in the incoming lexer satisfies `P` and
    every error already in the sink log has all its spans / positions in `P`,
    then after `run` (any fuel, grammar, context, world): a successful result
    hands back a lexer whose stored positions satisfy `P` and a value all of
    whose captured spans (`spanned`, at any depth) have both endpoints in `P`;
    a returned error has every span and position field in `P` (and, if it is a
    count error, reports fewer items than its minimum); and so has every
    error in the sink log afterwards.  With `P` = "canonical position of the
    text" (which the scanner preserves, C03) this is: every span in every
    returned or reported error and every captured span lies in the source, on
    character boundaries, with the right line/column.  Nothing is assumed of the
    scanner beyond closure; unbounded in everything.
  * `C13_enclosing_start_le_end`, `C13_start_le_end` — `Span::enclosing` never
    builds a reversed span, and every span field of every error `run` returns
    or logs (and every captured span) has start ≤ end, for every grammar, with
    no hypothesis on the scanner at all.
  * `C13_one_unexpected` … `C13_leaf_unexpected` — unexpected-token clauses for
    the primitive leaves `one`, `any`, `any_index`, `seq`, `pred`,
    `end_of_text`, for a lexer related (`PegRefine.Abs`: scanner contract
    `ScanOK`, harness filter table) to a state `s` of the reference evaluator:
    if the leaf fails with `UnexpectedToken { es, ts, exp, found }` then `es`
    is the parse span before the call; `found = Token t` implies `t` is the
    first kept token the leaf could not accept (`s.pop`; for `seq ks` the first
    kept token after the matching prefix, `(seqStop ks s).2.pop`), it really is
    unacceptable (kind ≠ k / not in ks / predicate false), `ts` is exactly that
    token's span and `es` ends at or before its start; `found = EndOfText`
    implies no kept token remains.  (`end_of_text` never reports
    `found = EndOfText`: a stream that stops early is `UnrecognizedToken`.)
  * `C13_run_unexpected` (and `_inv`, `_new`, `_on`) — the same for COMPOSITE
    parsers, every grammar of `G` (sequencing, choice, option, repetition,
    filter scoping, sub-lexing, capture, `recover`, `stabilize`, `bracket`,
    `list`, `up_to`, context wrappers), any fuel / context / world, for a
    well-formed lexer (`LexIter.Inv`; every lexer related by `Abs`, every fresh
    lexer) under the scanner contract `ScanOK` only.  Let `raw` be the raw token
    stream from the lexer's position on.  Every error the run returns, and every
    error it appends to the sink log (`log' = log ++ new`), if it is an
    `UnexpectedToken { es, ts, exp, found }`, comes with a filter `f` — the
    lexer's own or one installed by a `filter_with` / `unfiltered` node of the
    grammar — and a byte offset `c` with `es.e ≤ c` (the cursor of the lexer at
    which a primitive looked for its token) such that:
    `found = Token t` ⇒ some `r ∈ raw` has `r.tok = t`, `ts` is exactly
    `[r.start, r.stop)`, `c ≤ r.start` (so `es` ends at or before `ts`), `f`
    keeps `r` and rejects every raw token starting in `[c, r.start)` — `t` is the
    first token from `c` on that the filter in force keeps;
    `found = EndOfText` ⇒ `f` rejects every raw token starting at or after `c`.
    Bracket errors come along: `Unclosed`, `Unopened`, `Mismatch` (both spans)
    and `NoneFound` at an abort token carry exactly the span of a kept raw token;
    `NoneFound` at the end of the stream carries an empty span.
  * `C13_run_unexpected_kept`, `C13_run_unexpected_peg` — for grammars that
    install no filter (`filtersOf g = []`: all of `pegWithRep`, and also
    `recover` / `stabilize` / `bracket` / `list` / `sub` … over such bodies) the
    same against the KEPT stream `K` of the original lexer (`s.view` for a lexer
    related to the reference state `s`): `found = Token t` ⇒ `t` is the first
    token of `K` starting at or after `c`, `ts` exactly its span;
    `found = EndOfText` ⇒ no token of `K` starts at or after `c`.
  * `C13_boundary_extent` (and `_fresh`, `_captured`) — "boundary errors quote the
    actual extents".  `up_to(item, abort)` is what `list` wraps around every item;
    it raises `Boundary { es, end }` when the item succeeds but is not followed by
    an abort (separator / closing) token.  Setting as in C14 (`ScanOK`, `PassOK`, a
    lexer related by `AbsC` to a state `s` of the reference evaluator; `item` in
    the C14 fragment `pegWithCap`).  If the reference evaluator accepts `item` on a
    prefix of the kept tokens ending with the token `q`
    (`s.view = vpre ++ q :: s1.view`), and the next kept token `r` exists and is not
    an abort token, then the model of `up_to(item, abort)` — unless it runs out of
    fuel — fails with a boundary error whose parsed extent `es` ENDS at `q.stop`
    (the full position: byte, line, column): at the end of the last token the item
    accepted, not before it and not after the first token the item left.  This is
    the model-side theorem behind the driver's clause `boundaryProblems`
    (`TephraModel/Fam/Oracles.lean`), which compares `es.e.byte` of the Rust error
    with `q.stop.byte` computed by `Spec.peg`.  On the way
    (`BoundaryExtent.peg_after`): on grammars that do not change the filter, the raw
    tokens the reference evaluator consumes always end with a kept token.
    `C13_boundary_extent_captured`: the same end, named through C14 — `es` ends
    where the span `spanned(item)` captures ends.  Unbounded in scanner, text,
    metrics, item, abort set, fuel.  (The START of `es` is the lexer's parse start,
    which the relation `AbsC` does not track through `run`; nothing is claimed of
    it beyond start ≤ end.)
-/
import TephraModel.Run
import TephraProofs.BoundaryExtent
import TephraProofs.RunSpans
import TephraProofs.LeafUnexpected
import TephraProofs.ErrorOrigin

namespace Tephra.Props
open Tephra

theorem C13_one_reports_offender (R : RunEnv) (n k : Nat) (lx lx' : Lx) (ctx : Ctx) (W : World) (t : Tok)
    (h : lx.next R.E = (some t, lx')) (hk : (t.kind == k) = false) :
    run R (n + 1) (.one k) lx ctx W =
      (.err ⟨[], .unexp lx.parseSpan lx'.tokenSpan (.token k) (.token t)⟩, W) := by
  simp [run, h, hk, mkErr]

theorem C13_any_reports_lookahead (R : RunEnv) (n : Nat) (ks : List Nat) (lx lx' : Lx) (ctx : Ctx) (W : World)
    (t : Tok) (hne : ks.isEmpty = false)
    (h : lx.peek R.E = (some t, lx')) (hk : ks.find? (· == t.kind) = none) :
    run R (n + 1) (.any ks) lx ctx W =
      (.err ⟨[], .unexp lx.parseSpan (lx'.peekTokenSpan.getD lx'.tokenSpan) (.tokens ks) (.token t)⟩, W) := by
  simp [run, hne, h, hk, mkErr]

/-! ### first clause: every span comes from the lexer -/

/-- Every span / position of every returned or logged error, every captured
span and every position of the lexer handed back satisfies `P`. -/
theorem C13_spans_from_lexer (R : RunEnv) (P : Pos → Prop) (n : Nat) (g : G) (lx : Lx) (ctx : Ctx) (W : World)
    (hc : Closed R.E P lx.metrics) (hp : PosOK P lx) (hW : ∀ e ∈ W.log, ErrP P e.body) :
    (∀ v lx', (run R n g lx ctx W).1 = .ok v lx' → PosOK P lx' ∧ ValP P v) ∧
    (∀ e, (run R n g lx ctx W).1 = .err e → ErrP P e.body) ∧
    (∀ e ∈ (run R n g lx ctx W).2.log, ErrP P e.body) :=
  RunSpans.run_spans R P n g lx ctx W hc hp hW

/-- The same from a fresh lexer and an empty world (this is where `P Pos.zero` is used). -/
theorem C13_spans_from_new (R : RunEnv) (P : Pos → Prop) (h0 : P Pos.zero) (s0 : Nat) (m : Metrics) (len : Nat)
    (hc : Closed R.E P m) (n : Nat) (g : G) (ctx : Ctx) :
    (∀ v lx', (run R n g (Lexer.new s0 m len) ctx World.init).1 = .ok v lx' → PosOK P lx' ∧ ValP P v) ∧
    (∀ e, (run R n g (Lexer.new s0 m len) ctx World.init).1 = .err e → ErrP P e.body) ∧
    (∀ e ∈ (run R n g (Lexer.new s0 m len) ctx World.init).2.log, ErrP P e.body) :=
  RunSpans.run_spans R P n g _ ctx _ hc (LexInv.new_pos h0 s0 m len) (by simp [World.init])

theorem C13_enclosing_start_le_end (a b : Pos) : (Span.enclosing a b).s.byte ≤ (Span.enclosing a b).e.byte :=
  RunSpans.enclosing_le a b

/-- Every span of every returned or logged error and every captured span has start ≤ end. -/
theorem C13_start_le_end (R : RunEnv) (n : Nat) (g : G) (lx : Lx) (ctx : Ctx) (W : World)
    (hW : ∀ e ∈ W.log, ErrWF e.body) :
    (∀ v lx', (run R n g lx ctx W).1 = .ok v lx' → ValWF v) ∧
    (∀ e, (run R n g lx ctx W).1 = .err e → ErrWF e.body) ∧
    (∀ e ∈ (run R n g lx ctx W).2.log, ErrWF e.body) :=
  RunSpans.run_wf R n g lx ctx W hW

/-! ### unexpected-token clauses of the leaves -/

open Tephra.Spec PegRefine LeafErr

/-- `LeafErr.Unexp lx s1 es ts found` unfolded (so that the statements below can be read here). -/
theorem C13_Unexp_iff (lx : Lx) (s1 : PState) (es ts : Span) (found : Found) :
    Unexp lx s1 es ts found ↔
      (es = lx.parseSpan ∧
       (∀ t, found = .token t → ∃ r s', s1.pop = some (r, s') ∧ r.tok = t ∧ ts = ⟨r.start, r.stop⟩ ∧
          es.e.byte ≤ ts.s.byte) ∧
       (found = .eot → s1.pop = none)) := Iff.rfl

variable {R : RunEnv} {m : Metrics} {len : Nat}

theorem C13_one_unexpected (ok : ScanOK R.E m len) (hp : PassOK R.E) {lx : Lx} {s : PState}
    (a : Abs R.E m len lx s) (n k : Nat) (ctx : Ctx) (W : World) {es ts : Span} {exp : Expected} {found : Found}
    (h : (run R (n + 1) (.one k) lx ctx W).1 = .err ⟨[], .unexp es ts exp found⟩) :
    Unexp lx s es ts found ∧ exp = .token k ∧ ∀ t, found = .token t → (t.kind == k) = false :=
  one_unexpected ok hp a n k ctx W h

theorem C13_any_unexpected (ok : ScanOK R.E m len) (hp : PassOK R.E) {lx : Lx} {s : PState}
    (a : Abs R.E m len lx s) (n : Nat) (ks : List Nat) (ctx : Ctx) (W : World) {es ts : Span} {exp : Expected}
    {found : Found} (h : (run R (n + 1) (.any ks) lx ctx W).1 = .err ⟨[], .unexp es ts exp found⟩) :
    Unexp lx s es ts found ∧ exp = .tokens ks ∧ ∀ t, found = .token t → ks.find? (· == t.kind) = none :=
  any_unexpected ok hp a n ks ctx W h

theorem C13_anyIndex_unexpected (ok : ScanOK R.E m len) (hp : PassOK R.E) {lx : Lx} {s : PState}
    (a : Abs R.E m len lx s) (n : Nat) (ks : List Nat) (ctx : Ctx) (W : World) {es ts : Span} {exp : Expected}
    {found : Found} (h : (run R (n + 1) (.anyIndex ks) lx ctx W).1 = .err ⟨[], .unexp es ts exp found⟩) :
    Unexp lx s es ts found ∧ exp = .tokens ks ∧ ∀ t, found = .token t → position ks t.kind = none :=
  anyIndex_unexpected ok hp a n ks ctx W h

theorem C13_seq_unexpected (ok : ScanOK R.E m len) (hp : PassOK R.E) {lx : Lx} {s : PState}
    (a : Abs R.E m len lx s) (n : Nat) (ks : List Nat) (ctx : Ctx) (W : World) {es ts : Span} {exp : Expected}
    {found : Found} (h : (run R (n + 1) (.seq ks) lx ctx W).1 = .err ⟨[], .unexp es ts exp found⟩) :
    Unexp lx (seqStop ks s).2 es ts found ∧ ∃ k' rest, (seqStop ks s).1 = k' :: rest ∧ exp = .token k' ∧
      ∀ t, found = .token t → (t.kind == k') = false :=
  seq_unexpected ok hp a n ks ctx W h

theorem C13_pred_unexpected (ok : ScanOK R.E m len) (hp : PassOK R.E) {lx : Lx} {s : PState}
    (a : Abs R.E m len lx s) (n : Nat) (p : PE) (ctx : Ctx) (W : World) {es ts : Span} {exp : Expected}
    {found : Found} (h : (run R (n + 1) (.pred p) lx ctx W).1 = .err ⟨[], .unexp es ts exp found⟩) :
    Unexp lx s es ts found ∧ exp = .other ∧ ∀ t, found = .token t → p.eval t = false :=
  pred_unexpected ok hp a n p ctx W h

theorem C13_endOfText_unexpected (ok : ScanOK R.E m len) (hp : PassOK R.E) {lx : Lx} {s : PState}
    (a : Abs R.E m len lx s) (n : Nat) (ctx : Ctx) (W : World) {es ts : Span} {exp : Expected}
    {found : Found} (h : (run R (n + 1) .endOfText lx ctx W).1 = .err ⟨[], .unexp es ts exp found⟩) :
    Unexp lx s es ts found ∧ exp = .eot ∧ ∃ t, found = .token t :=
  endOfText_unexpected ok hp a n ctx W h

/-- All six leaves at once (`leafStop g s = s` except `leafStop (seq ks) s = (seqStop ks s).2`). -/
theorem C13_leaf_unexpected (ok : ScanOK R.E m len) (hp : PassOK R.E) {lx : Lx} {s : PState}
    (a : Abs R.E m len lx s) (n : Nat) (g : G) (hg : isLeaf g = true) (ctx : Ctx) (W : World) {es ts : Span}
    {exp : Expected} {found : Found}
    (h : (run R (n + 1) g lx ctx W).1 = .err ⟨[], .unexp es ts exp found⟩) :
    Unexp lx (leafStop g s) es ts found :=
  leaf_unexpected ok hp a n g hg ctx W h

/-! ### unexpected-token clauses of composite parsers: all of `G` -/

open ErrOrigin LexIter

/-- `UnexpOK E raw F` on an `UnexpectedToken`, unfolded (so that the statements below can be read here). -/
theorem C13_UnexpOK_unexp_iff (E : LexEnv Nat Tok) (raw : List (RawTok Tok)) (F : Option Nat → Prop)
    (es ts : Span) (exp : Expected) (found : Found) :
    UnexpOK E raw F (.unexp es ts exp found) ↔
      ∃ f c, F f ∧ es.e.byte ≤ c ∧
        (∀ t, found = .token t → ∃ r, r.tok = t ∧ ts = ⟨r.start, r.stop⟩ ∧
          (r ∈ raw ∧ c ≤ r.start.byte ∧ keepOf E f r.tok = true ∧
            ∀ x ∈ raw, c ≤ x.start.byte → x.start.byte < r.start.byte → keepOf E f x.tok = false)) ∧
        (found = .eot → ∀ x ∈ raw, c ≤ x.start.byte → keepOf E f x.tok = false) := Iff.rfl

/-- `UnexpOK` on the bracket errors, unfolded. -/
theorem C13_UnexpOK_bracket_iff (E : LexEnv Nat Tok) (raw : List (RawTok Tok)) (F : Option Nat → Prop)
    (s e : Span) :
    (UnexpOK E raw F (.bracketUnclosed s) ↔ TokSpan E raw F s) ∧
    (UnexpOK E raw F (.bracketUnopened s) ↔ TokSpan E raw F s) ∧
    (UnexpOK E raw F (.bracketMismatch s e) ↔ TokSpan E raw F s ∧ TokSpan E raw F e) ∧
    (UnexpOK E raw F (.bracketNone s) ↔ TokSpan E raw F s ∨ s.s = s.e) ∧
    (TokSpan E raw F s ↔ ∃ f r, F f ∧ r ∈ raw ∧ keepOf E f r.tok = true ∧ s = ⟨r.start, r.stop⟩) :=
  ⟨Iff.rfl, Iff.rfl, Iff.rfl, Iff.rfl, Iff.rfl⟩

/-- the filters in force inside a run of `g` from `lx`: the lexer's own, or one `g` installs -/
theorem C13_FiltersFor_iff (lx : Lx) (g : G) (f : Option Nat) :
    FiltersFor lx g f ↔ f = lx.filter ∨ f ∈ filtersOf g := Iff.rfl

/-- The plain reading of the token clause: a real token of the source with
exactly its span, and the parse-so-far span ends at or before it. -/
theorem C13_unexpected_token_real {E : LexEnv Nat Tok} {raw : List (RawTok Tok)} {F : Option Nat → Prop}
    {es ts : Span} {exp : Expected} {t : Tok} (h : UnexpOK E raw F (.unexp es ts exp (.token t))) :
    ∃ r ∈ raw, r.tok = t ∧ ts = ⟨r.start, r.stop⟩ ∧ es.e.byte ≤ ts.s.byte :=
  UnexpAt.token h

/-- Composite parsers, every grammar: every `UnexpectedToken` returned or newly
sent to the sink names the first token the filter in force keeps from the
cursor of the failing primitive on (or end-of-text when none remains). -/
theorem C13_run_unexpected (ok : ScanOK R.E m len) {lx : Lx} {s : PState} (a : Abs R.E m len lx s)
    (n : Nat) (g : G) (ctx : Ctx) (W : World) :
    (∀ e, (run R n g lx ctx W).1 = .err e →
      UnexpOK R.E (rawAt R.E m len lx.scanner lx.cursor) (FiltersFor lx g) e.body) ∧
    (∃ new, (run R n g lx ctx W).2.log = W.log ++ new ∧
      ∀ e ∈ new, UnexpOK R.E (rawAt R.E m len lx.scanner lx.cursor) (FiltersFor lx g) e.body) :=
  run_unexp_inv ok (a.filter ▸ a.inv) n g ctx W

/-- The same from the lexer invariant alone (no reference state, no assumption on the filter table). -/
theorem C13_run_unexpected_inv (ok : ScanOK R.E m len) {lx : Lx} (i : Inv R.E m len lx.filter lx)
    (n : Nat) (g : G) (ctx : Ctx) (W : World) :
    (∀ e, (run R n g lx ctx W).1 = .err e →
      UnexpOK R.E (rawAt R.E m len lx.scanner lx.cursor) (FiltersFor lx g) e.body) ∧
    (∃ new, (run R n g lx ctx W).2.log = W.log ++ new ∧
      ∀ e ∈ new, UnexpOK R.E (rawAt R.E m len lx.scanner lx.cursor) (FiltersFor lx g) e.body) :=
  run_unexp_inv ok i n g ctx W

/-- The same from a fresh lexer: `raw` is the whole raw stream of the text, the
filter in force is `none` or one the grammar installs. -/
theorem C13_run_unexpected_new (ok : ScanOK R.E m len) (s0 : Nat) (n : Nat) (g : G) (ctx : Ctx) (W : World) :
    (∀ e, (run R n g (Lexer.new s0 m len) ctx W).1 = .err e →
      UnexpOK R.E (rawAt R.E m len s0 Pos.zero) (fun f => f = none ∨ f ∈ filtersOf g) e.body) ∧
    (∃ new, (run R n g (Lexer.new s0 m len) ctx W).2.log = W.log ++ new ∧
      ∀ e ∈ new, UnexpOK R.E (rawAt R.E m len s0 Pos.zero) (fun f => f = none ∨ f ∈ filtersOf g) e.body) :=
  run_unexp_inv ok (lx := Lexer.new s0 m len) (inv_fresh s0 none) n g ctx W

/-- The invariant form (what the induction proves): for any stream `raw` the
lexer sits on (`J`: well-formed, filter in `F`, `raw = pre ++ rawAt …` with `pre`
before the cursor) and any `F` containing the filters the grammar installs, the
lexer handed back still sits on `raw`, and every error returned or newly logged
is good. -/
theorem C13_run_unexpected_on {raw : List (RawTok Tok)} {F : Option Nat → Prop} (ok : ScanOK R.E m len)
    (n : Nat) (g : G) (lx : Lx) (ctx : Ctx) (W : World) (hg : ∀ f ∈ filtersOf g, F f)
    (hj : J R.E m len raw F lx) :
    (∀ v lx', (run R n g lx ctx W).1 = .ok v lx' → J R.E m len raw F lx') ∧
    (∀ e, (run R n g lx ctx W).1 = .err e → UnexpOK R.E raw F e.body) ∧
    (∃ new, (run R n g lx ctx W).2.log = W.log ++ new ∧ ∀ e ∈ new, UnexpOK R.E raw F e.body) :=
  run_unexp ok n g lx ctx W (GF_of_filtersOf g hg) hj

/-- `UnexpKeptOK K` on an `UnexpectedToken`, unfolded. -/
theorem C13_UnexpKeptOK_unexp_iff (K : List (RawTok Tok)) (es ts : Span) (exp : Expected) (found : Found) :
    UnexpKeptOK K (.unexp es ts exp found) ↔
      ∃ c, es.e.byte ≤ c ∧
        (∀ t, found = .token t → ∃ r ∈ K, r.tok = t ∧ ts = ⟨r.start, r.stop⟩ ∧ c ≤ r.start.byte ∧
          ∀ x ∈ K, c ≤ x.start.byte → r.start.byte ≤ x.start.byte) ∧
        (found = .eot → ∀ x ∈ K, x.start.byte < c) := Iff.rfl

/-- Grammars that install no filter, against the kept stream of the original lexer. -/
theorem C13_run_unexpected_kept (ok : ScanOK R.E m len) {lx : Lx} (i : Inv R.E m len lx.filter lx)
    (n : Nat) (g : G) (hg : filtersOf g = []) (ctx : Ctx) (W : World) :
    (∀ e, (run R n g lx ctx W).1 = .err e → UnexpKeptOK (BracketRefine.kept R.E m len lx) e.body) ∧
    (∃ new, (run R n g lx ctx W).2.log = W.log ++ new ∧
      ∀ e ∈ new, UnexpKeptOK (BracketRefine.kept R.E m len lx) e.body) :=
  run_unexp_kept ok i n g hg ctx W

/-- The PEG fragment on which `run` refines `Spec.peg`, against the view of the reference state. -/
theorem C13_run_unexpected_peg (ok : ScanOK R.E m len) (hp : PassOK R.E) {lx : Lx} {s : PState}
    (a : Abs R.E m len lx s) (n : Nat) (g : G) (hg : pegWithRep g = true) (ctx : Ctx) (W : World) :
    (∀ e, (run R n g lx ctx W).1 = .err e → UnexpKeptOK s.view e.body) ∧
    (∃ new, (run R n g lx ctx W).2.log = W.log ++ new ∧ ∀ e ∈ new, UnexpKeptOK s.view e.body) := by
  rw [← kept_eq_view hp a]
  exact run_unexp_kept ok (a.filter ▸ a.inv) n g (filtersOf_pegWithRep g hg) ctx W

/-! ### non-vacuity: a one-token text -/

/-- a scanner for a one-byte text: one token of kind 0 at position zero -/
def oneScan : Nat → Metrics → Pos → Option (Tok × Pos) × Nat := fun s _ p =>
  if p.byte = 0 then (some (⟨0, 0⟩, ⟨1, 0, 1⟩), s) else (none, s)

def oneEnv : RunEnv := ⟨⟨oneScan, passesMask, fun _ b => ⟨b, 0, b⟩⟩, []⟩

def oneP (p : Pos) : Prop := p = Pos.zero ∨ p = ⟨1, 0, 1⟩

theorem oneP_closed (m : Metrics) : Closed oneEnv.E oneP m := by
  intro s p tok adv s' _ h
  simp only [oneEnv, oneScan] at h
  split at h
  · cases h; exact Or.inr rfl
  · cases h

theorem oneScan_ok (m : Metrics) : ScanOK oneEnv.E m 1 := by
  constructor
  · intro s p tok adv s' h
    simp only [oneEnv, oneScan] at h
    split at h
    · cases h; simp_all
    · cases h
  · intro s p h
    simp only [oneEnv, oneScan]
    rw [if_neg (by omega)]

/-- `one 1` on the text whose only token has kind 0 fails with an
`UnexpectedToken` whose spans are the parse span before the call and the span of
the offending token. -/
theorem one_fails (m : Metrics) (ctx : Ctx) (W : World) :
    (run oneEnv 1 (.one 1) (Lexer.new 0 m 1) ctx W).1 =
      .err ⟨[], .unexp ⟨Pos.zero, Pos.zero⟩ ⟨Pos.zero, ⟨1, 0, 1⟩⟩ (.token 1) (.token ⟨0, 0⟩)⟩ := by
  simp only [run, Lexer.next, Lexer.new]
  rw [Lexer.nextLoop]
  simp [oneEnv, oneScan, Lexer.filtered, Pos.zero, Lexer.parseSpan, Lexer.tokenSpan, Span.enclosing, mkErr]

/-- Non-vacuity of `C13_spans_from_lexer` / `C13_spans_from_new`: the hypotheses
hold and the run produces an error with two non-trivial spans. -/
example : oneP Pos.zero ∧ Closed oneEnv.E oneP (⟨.lf, 4⟩ : Metrics) ∧
    ∃ e, (run oneEnv 1 (.one 1) (Lexer.new 0 ⟨.lf, 4⟩ 1) ⟨false, [], false⟩ World.init).1 = .err e :=
  ⟨Or.inl rfl, oneP_closed _, _, one_fails _ _ _⟩

/-- Non-vacuity of `C13_start_le_end`: same run. -/
example : (∀ e ∈ World.init.log, ErrWF e.body) ∧
    ∃ e, (run oneEnv 1 (.one 1) (Lexer.new 0 ⟨.lf, 4⟩ 1) ⟨false, [], false⟩ World.init).1 = .err e :=
  ⟨by simp [World.init], _, one_fails _ _ _⟩

/-- Non-vacuity of the leaf clauses: a related lexer/state pair on which `one 1`
fails with `UnexpectedToken`, `found = Token`. -/
example : ∃ (lx : Lx) (s : PState), ScanOK oneEnv.E (⟨.lf, 4⟩ : Metrics) 1 ∧ PassOK oneEnv.E ∧
    Abs oneEnv.E ⟨.lf, 4⟩ 1 lx s ∧
    (run oneEnv 1 (.one 1) lx ⟨false, [], false⟩ World.init).1 =
      .err ⟨[], .unexp ⟨Pos.zero, Pos.zero⟩ ⟨Pos.zero, ⟨1, 0, 1⟩⟩ (.token 1) (.token ⟨0, 0⟩)⟩ :=
  ⟨_, _, oneScan_ok _, fun _ _ => rfl, abs_new 0 (fun _ _ => rfl), one_fails _ _ _⟩

/-! ### non-vacuity of the composite clauses: the text `a b` -/

open PegRefine.Witness

/-- `both(one 0, either(one 1, one 2))`: the first token is taken, both alternatives
fail on the second one (the whitespace token, no filter). -/
def gComposite : G := .both (.one 0) (.either (.one 1) (.one 2))

set_option maxRecDepth 4000 in
theorem gComposite_fails (ctx : Ctx) (W : World) :
    (run RW 3 gComposite (Lexer.new 0 mW 3) ctx W).1 =
      .err ⟨[], .unexp ⟨⟨0, 0, 0⟩, ⟨1, 0, 1⟩⟩ ⟨⟨1, 0, 1⟩, ⟨2, 0, 2⟩⟩ (.token 2) (.token ⟨12, 0⟩)⟩ := by
  simp [gComposite, run, RW, EW, scanW, mW, Lexer.new, Lexer.next, Lexer.nextLoop, Lexer.filtered, Pos.zero,
    Lexer.parseSpan, Lexer.tokenSpan, Span.enclosing, mkErr]

/-- Non-vacuity of `C13_run_unexpected*`: the hypotheses hold (scanner contract,
related lexer, `pegWithRep`, no filter installed) and the composite fails on its
second token with an `UnexpectedToken` whose found token is the second raw token
with exactly its span `[1,2)`, after the parse-so-far span `[0,1)`. -/
example : ScanOK RW.E mW 3 ∧ PassOK RW.E ∧ Abs RW.E mW 3 (Lexer.new 0 mW 3) (stateOf 3 rawW Pos.zero none) ∧
    pegWithRep gComposite = true ∧ filtersOf gComposite = [] ∧
    (run RW 3 gComposite (Lexer.new 0 mW 3) ctxW World.init).1 =
      .err ⟨[], .unexp ⟨⟨0, 0, 0⟩, ⟨1, 0, 1⟩⟩ ⟨⟨1, 0, 1⟩, ⟨2, 0, 2⟩⟩ (.token 2) (.token ⟨12, 0⟩)⟩ ∧
    (⟨⟨12, 0⟩, ⟨1, 0, 1⟩, ⟨2, 0, 2⟩⟩ : RawTok Tok) ∈ rawAt RW.E mW 3 0 Pos.zero :=
  ⟨scanW_ok, passW, by rw [← rawW_eq]; exact abs_new 0 passW, rfl, rfl, gComposite_fails _ _,
    by rw [show RW.E = EW from rfl, rawW_eq]; simp [rawW]⟩

/-- and what the theorem then says about that error -/
example : ∃ r ∈ rawAt RW.E mW 3 0 Pos.zero, r.tok = ⟨12, 0⟩ ∧
    (⟨⟨1, 0, 1⟩, ⟨2, 0, 2⟩⟩ : Span) = ⟨r.start, r.stop⟩ ∧ (1 : Nat) ≤ 1 := by
  have h := (C13_run_unexpected_new (R := RW) scanW_ok 0 3 gComposite ctxW World.init).1 _ (gComposite_fails _ _)
  exact C13_unexpected_token_real h

/-- a composite that SENDS the error of a primitive to the sink: `recover` around
`one 2`, with a sink; the error is logged, the parse recovers before the token of kind 1 -/
def gSink : G := .both (.one 0) (.recover 1 0 (.one 2) (.before 1))

set_option maxRecDepth 8000 in
theorem gSink_logs :
    (run RW 4 gSink (Lexer.new 0 mW 3) ⟨true, [], false⟩ World.init).2.log =
      [⟨[], .unexp ⟨⟨0, 0, 0⟩, ⟨1, 0, 1⟩⟩ ⟨⟨1, 0, 1⟩, ⟨2, 0, 2⟩⟩ (.token 2) (.token ⟨12, 0⟩)⟩] := by
  simp [gSink, run, recoverDefault, sendError, Ctx.apply, World.register, World.init, RW, EW, scanW, mW, Lexer.new,
    Lexer.next, Lexer.nextLoop, Lexer.filtered, Pos.zero, Lexer.parseSpan, Lexer.tokenSpan, Span.enclosing, mkErr,
    advanceToRecover, Lexer.setRecoverState, recoverLoop, askRecover, Lexer.peek, Lexer.bufferNext, Lexer.bufferLoop]

/-- Non-vacuity of the sink clause: the new part of the log is non-empty and the
theorem applies to its entry. -/
example : ∃ e ∈ (run RW 4 gSink (Lexer.new 0 mW 3) ⟨true, [], false⟩ World.init).2.log,
    UnexpOK RW.E (rawAt RW.E mW 3 0 Pos.zero) (fun f => f = none ∨ f ∈ filtersOf gSink) e.body ∧
    ∃ es ts exp t, e.body = .unexp es ts exp (.token t) := by
  obtain ⟨new, h1, h2⟩ := (C13_run_unexpected_new (R := RW) scanW_ok 0 4 gSink ⟨true, [], false⟩ World.init).2
  have hnew : new = (run RW 4 gSink (Lexer.new 0 mW 3) ⟨true, [], false⟩ World.init).2.log := by
    rw [h1]; simp [World.init]
  rw [gSink_logs] at hnew
  refine ⟨_, by rw [gSink_logs]; exact List.mem_singleton.mpr rfl, h2 _ (by rw [hnew]; exact List.mem_singleton.mpr rfl),
    _, _, _, _, rfl⟩

/-! ### boundary errors quote the actual extents -/

open BoundaryExtent in
/-- **Boundary errors quote the actual extents: the parsed extent ends at the end of the last
token the item accepted.**

`up_to(a, abort)` is the wrapper `list` puts around every item.  Let the lexer `lx` be related
(`AbsC`, as in C14) to the state `s` of the reference evaluator, `a` a grammar of the C14
fragment.  Suppose the reference evaluator accepts `a` from `s` leaving `s1`
(`hpeg`, any fuel `k ≥ 2 n`), the item consumed the kept tokens `vpre ++ [q]` — `q` is the last
token it accepted (`hview`) — and it left a kept token `r` that is not an abort token
(`hnext`, `hab`): the item accepted a proper prefix of what precedes the next abort token.
Then the model of `up_to(a, abort)`, whenever it does not run out of fuel, fails with
`Boundary { es, end }` where `es.e = q.stop`: the quoted extent ends exactly where the accepted
prefix ends — not before `q`'s end and not after the first token the item left (`r` starts at or
after `q.stop`).  Also `es.s ≤ es.e`. -/
theorem C13_boundary_extent (R : RunEnv) (m : Metrics) (len : Nat) (P : Pos → Prop)
    (ok : ScanOK R.E m len) (hp : PassOK R.E) (hc : Closed R.E P m)
    (hP : ∀ p, P p → (splitAtByte R.text p.byte).isSome = true)
    (n k : Nat) (hk : 2 * n ≤ k) (a : G) (abort : List Nat) (lx : Lx) (s s1 : PState) (ctx : Ctx) (W : World)
    (v : Val) (hg : pegWithCap a = true) (a0 : AbsC R.E m len P lx s)
    (hpeg : peg R.text k a s = .ok v s1)
    (vpre vpost : List (RawTok Tok)) (q r : RawTok Tok)
    (hview : s.view = vpre ++ q :: s1.view) (hnext : s1.view = r :: vpost)
    (hab : abort.contains r.tok.kind = false)
    (hnf : (run R (n + 1) (.upTo a abort) lx ctx W).1 ≠ .fuel) :
    ∃ es endp, (run R (n + 1) (.upTo a abort) lx ctx W).1 = .err (mkErr (.boundary es endp)) ∧
      es.e = q.stop ∧ es.s.byte ≤ es.e.byte :=
  upTo_boundary_extent hc ok hp hP hk hg a0 hpeg hview hnext hab hnf

open BoundaryExtent in
/-- The same for the harness's initial lexer (a fresh lexer after `with_filter(f)`), against the
whole raw stream of the text. -/
theorem C13_boundary_extent_fresh (R : RunEnv) (m : Metrics) (len : Nat) (P : Pos → Prop)
    (ok : ScanOK R.E m len) (hp : PassOK R.E) (hc : Closed R.E P m) (h0 : P Pos.zero)
    (hP : ∀ p, P p → (splitAtByte R.text p.byte).isSome = true)
    (s0 : Nat) (f : Option Nat)
    (n k : Nat) (hk : 2 * n ≤ k) (a : G) (abort : List Nat) (s1 : PState) (ctx : Ctx) (W : World)
    (v : Val) (hg : pegWithCap a = true)
    (hpeg : peg R.text k a (stateOf len (rawAt R.E m len s0 Pos.zero) Pos.zero f) = .ok v s1)
    (vpre vpost : List (RawTok Tok)) (q r : RawTok Tok)
    (hview : (stateOf len (rawAt R.E m len s0 Pos.zero) Pos.zero f).view = vpre ++ q :: s1.view)
    (hnext : s1.view = r :: vpost) (hab : abort.contains r.tok.kind = false)
    (hnf : (run R (n + 1) (.upTo a abort) ((Lexer.new s0 m len).withFilter R.E f) ctx W).1 ≠ .fuel) :
    ∃ es endp, (run R (n + 1) (.upTo a abort) ((Lexer.new s0 m len).withFilter R.E f) ctx W).1 =
        .err (mkErr (.boundary es endp)) ∧ es.e = q.stop ∧ es.s.byte ≤ es.e.byte :=
  upTo_boundary_extent hc ok hp hP hk hg (absC_withFilter hc ok hp h0 s0 f) hpeg hview hnext hab hnf

open BoundaryExtent in
/-- The same end, named through C14: the parsed extent of the boundary error ends where the span
that `spanned(a)` captures ends (`Spec.capturedSpan` of the raw tokens the item consumed). -/
theorem C13_boundary_extent_captured (R : RunEnv) (m : Metrics) (len : Nat) (P : Pos → Prop)
    (ok : ScanOK R.E m len) (hp : PassOK R.E) (hc : Closed R.E P m)
    (hP : ∀ p, P p → (splitAtByte R.text p.byte).isSome = true)
    (n k : Nat) (hk : 2 * n ≤ k) (a : G) (abort : List Nat) (lx : Lx) (s s1 : PState) (ctx : Ctx) (W : World)
    (v : Val) (hg : pegWithCap a = true) (a0 : AbsC R.E m len P lx s)
    (hpeg : peg R.text k a s = .ok v s1)
    (sp : Span) (hcap : capturedSpan s.filter (s.rest.take (s.rest.length - s1.rest.length)) = some sp)
    (vpost : List (RawTok Tok)) (r : RawTok Tok) (hnext : s1.view = r :: vpost)
    (hab : abort.contains r.tok.kind = false)
    (hnf : (run R (n + 1) (.upTo a abort) lx ctx W).1 ≠ .fuel) :
    ∃ es endp, (run R (n + 1) (.upTo a abort) lx ctx W).1 = .err (mkErr (.boundary es endp)) ∧
      es.e = sp.e :=
  upTo_boundary_captured hc ok hp hP hk hg a0 hpeg hcap hnext hab hnf

/-- On grammars of the C14 fragment the reference evaluator's consumed raw prefix ends with a kept
token (or is empty): the end state's raw tokens are the start state's after a kept token. -/
theorem C13_consumed_ends_kept (text : Text) (k : Nat) (g : G) (s s1 : PState) (v : Val)
    (hg : pegWithCap g = true) (h : peg text k g s = .ok v s1) :
    s1.filter = s.filter ∧
      (s1.rest = s.rest ∨ ∃ pre q, s.rest = pre ++ q :: s1.rest ∧ keeps s.filter q.tok = true) :=
  BoundaryExtent.peg_after hg h

set_option maxRecDepth 8000 in
/-- the model of `up_to(one 0, [2])` on `a b` (whitespace filtered): the item takes `a`, the next
kept token `b` (kind 1) is not an abort token; the boundary error quotes `[0,1)` = the token `a`,
and the rest of the segment is skipped to byte 3 -/
theorem upTo_one_boundary :
    (run RW 2 (.upTo (.one 0) [2]) lxW ctxW World.init).1 =
      .err (mkErr (.boundary ⟨⟨0, 0, 0⟩, ⟨1, 0, 1⟩⟩ ⟨3, 0, 3⟩)) := by
  simp [run, lxW, ctxW, RW, EW, scanW, mW, Lexer.withFilter, Lexer.setFilter, Lexer.new,
    Lexer.bufferNext, Lexer.bufferLoop, Lexer.next, Lexer.peek, Lexer.filtered,
    Lexer.parseSpan, Span.enclosing, passesMask, classOf, Pos.zero, Lexer.advanceTo, mkErr]

theorem upTo_one_not_fuel : (run RW 2 (.upTo (.one 0) [2]) lxW ctxW World.init).1 ≠ .fuel := by
  rw [upTo_one_boundary]; exact fun h => nomatch h

/-- Non-vacuity of `C13_boundary_extent`: on `a b` with the whitespace filter, item `one 0`, abort
set `[2]`, every hypothesis holds — scanner contract, filter table, closed position predicate
(char boundaries of the text), related lexer, fragment, the reference evaluator accepts `a`
(`q` = the token `a` at [0,1)) and leaves `b` (kind 1, not an abort token), the run does not run
out of fuel — and the error is the boundary error whose extent `[0,1)` ends at `q.stop` = byte 1. -/
example : ScanOK EW mW 3 ∧ PassOK EW ∧ Closed EW PW mW ∧
    (∀ p, PW p → (splitAtByte RW.text p.byte).isSome = true) ∧ AbsC EW mW 3 PW lxW sW ∧
    pegWithCap (.one 0) = true ∧
    peg RW.text 2 (.one 0) sW = .ok (.tok ⟨0, 0⟩) ⟨rawW.tail, .eot, some 1⟩ ∧
    sW.view = [] ++ (⟨⟨0, 0⟩, ⟨0, 0, 0⟩, ⟨1, 0, 1⟩⟩ : RawTok Tok) :: (⟨rawW.tail, .eot, some 1⟩ : PState).view ∧
    (⟨rawW.tail, .eot, some 1⟩ : PState).view = (⟨⟨1, 0⟩, ⟨2, 0, 2⟩, ⟨3, 0, 3⟩⟩ : RawTok Tok) :: [] ∧
    [2].contains (⟨⟨1, 0⟩, ⟨2, 0, 2⟩, ⟨3, 0, 3⟩⟩ : RawTok Tok).tok.kind = false ∧
    (run RW 2 (.upTo (.one 0) [2]) lxW ctxW World.init).1 ≠ .fuel ∧
    (run RW 2 (.upTo (.one 0) [2]) lxW ctxW World.init).1 =
      .err (mkErr (.boundary ⟨⟨0, 0, 0⟩, ⟨1, 0, 1⟩⟩ ⟨3, 0, 3⟩)) :=
  ⟨scanW_ok, passW, closedW, boundaryW, absCW, rfl, rfl, by decide, by decide, by decide,
    upTo_one_not_fuel, upTo_one_boundary⟩

/-- and what the theorem then says about that error: its extent ends at byte 1, line 0, column 1 -/
example : ∃ es endp, (run RW 2 (.upTo (.one 0) [2]) lxW ctxW World.init).1 = .err (mkErr (.boundary es endp)) ∧
    es.e = ⟨1, 0, 1⟩ ∧ es.s.byte ≤ es.e.byte :=
  C13_boundary_extent RW mW 3 PW scanW_ok passW closedW boundaryW 1 2 (Nat.le_refl _) (.one 0) [2] lxW sW
    ⟨rawW.tail, .eot, some 1⟩ ctxW World.init (.tok ⟨0, 0⟩) rfl absCW rfl
    [] [] ⟨⟨0, 0⟩, ⟨0, 0, 0⟩, ⟨1, 0, 1⟩⟩ ⟨⟨1, 0⟩, ⟨2, 0, 2⟩, ⟨3, 0, 3⟩⟩ (by decide) (by decide) (by decide)
    upTo_one_not_fuel

end Tephra.Props
