/-
  C18 — widening and splitting partition a span into whole lines.

  English: take any text, any line-ending style, any tab width ≥ 1 and character
  widths, and any span whose two ends are aligned character boundaries of the
  text (not between the CR and the LF of a CRLF ending) carrying their canonical
  positions.  Then
  * `Span::widen_to_line` returns the span from the start of the line holding
    the span's start to the end of the line holding its end (`C18_widen`; the
    `is_full` shortcut agrees with that), and that result starts at a line
    start, ends at a line end, adds no line ending on either side and contains
    the original span (`C18_widen_minimal`);
  * `Span::split_lines` yields exactly one piece per line under the span, in
    order, each piece covering that line and nothing else, `len()` always equals
    the number of pieces still to come, the `.expect` in `next` is never reached
    (`C18_split`), and the pieces are the lines of the text under the span: no
    piece contains a line ending and joining them with the line ending gives the
    text back (`C18_rejoin`).

  Lean: the model (`TephraModel.Span`: `Span.widenToLine`, `SplitLines`) against
  `Spec.widenSpec` / `Spec.splitSpec`, which are written with the forward line
  cutter `Spec.linesOf` and canonical positions `Spec.canon` only.  A span is
  given as `t = a ++ mid ++ z`.  Unbounded in the text; `fuel` only bounds the
  number of `next()` calls the collector makes.
-/
import TephraProofs.Lines

namespace Tephra.Props
open Tephra Tephra.Spec Tephra.LinesPf

/-- `widen_to_line` is the spec's widening. -/
theorem C18_widen (m : Metrics) (_htab : 1 ≤ m.tab) (a mid z : Text)
    (hwf : Text.WF (a ++ mid ++ z))
    (ha1 : aligned m a (mid ++ z) = true) (ha2 : aligned m (a ++ mid) z = true) :
    let src : Source := ⟨a ++ mid ++ z, m, Pos.zero⟩
    let x : Span := ⟨canon m a, canon m (a ++ mid)⟩
    x.widenToLine src = .ok (widenSpec m a mid z) :=
  widen_correct m a mid z hwf ha1 ha2

/-- `split_lines`, observed as (`len()` before each `next()`, piece) plus the final `len()`:
one piece per line of the text under the span, the reported length counts the pieces still to
come, no panic. -/
theorem C18_split (m : Metrics) (_htab : 1 ≤ m.tab) (a mid z : Text)
    (hwf : Text.WF (a ++ mid ++ z))
    (ha1 : aligned m a (mid ++ z) = true) (ha2 : aligned m (a ++ mid) z = true)
    (fuel : Nat) (hfuel : (linesOf m mid).length + 1 ≤ fuel) :
    let src : Source := ⟨a ++ mid ++ z, m, Pos.zero⟩
    let x : Span := ⟨canon m a, canon m (a ++ mid)⟩
    (SplitLines.ofSpan x src).collect fuel = .ok (splitSpec m a mid z, 0) :=
  split_correct m a mid z hwf ha1 ha2 fuel hfuel

/-- The family observation (what the differential driver compares) equals the spec's. -/
theorem C18_family (m : Metrics) (_htab : 1 ≤ m.tab) (a mid z : Text)
    (hwf : Text.WF (a ++ mid ++ z))
    (ha1 : aligned m a (mid ++ z) = true) (ha2 : aligned m (a ++ mid) z = true) :
    Fam.Lines.model m (a ++ mid ++ z) ⟨canon m a, canon m (a ++ mid)⟩ =
      Fam.Lines.ofSpec (widenSpec m a mid z) (splitSpec m a mid z) := by
  have hlen : (linesOf m mid).length + 1 ≤ bytes (a ++ mid ++ z) + 4 := by
    have := linesOf_length_le_bytes m mid (Text.WF_append.mp (Text.WF_append.mp hwf).1).2
    simp only [bytes_append]; omega
  simp only [Fam.Lines.model, Fam.Lines.ofSpec, widen_correct m a mid z hwf ha1 ha2,
    split_correct m a mid z hwf ha1 ha2 _ hlen]

/-- About the spec: the pieces of `splitSpec` are the lines of `mid`, in order; piece `i`
starts where line `i` starts in `t` and covers exactly that line; no line contains a line
ending; joining the lines with the line ending gives `mid` back (on code points). -/
theorem C18_rejoin (m : Metrics) (a mid z : Text) :
    let t := a ++ mid ++ z
    let L := linesOf m mid
    (splitSpec m a mid z).length = L.length ∧
    (∀ i l, L[i]? = some l →
      let off := a.length + ((L.take i).map (fun l => l.length + lbLen m)).sum
      (splitSpec m a mid z)[i]? =
          some (L.length - i, ⟨canon m (t.take off), canon m (t.take (off + l.length))⟩) ∧
        (t.drop off).take l.length = l) ∧
    (∀ l ∈ L, ∀ k, breakAt m (l.drop k) = none) ∧
    List.intercalate (lbCodes m) (L.map (·.map (·.code))) = mid.map (·.code) := by
  refine ⟨piecesFrom_length m _ _ _, ?_, ?_, lines_join_codes m mid⟩
  · intro i l hl
    refine ⟨piecesFrom_getElem? m _ _ a.length i l hl, ?_⟩
    have h := lines_at_offset m (linesOf m mid) mid i l rfl hl
    have h2 := take_drop_append_of_eq (z := z) h
    show ((a ++ mid ++ z).drop (a.length + lineOffset (lbLen m) (linesOf m mid) i)).take l.length = l
    rw [List.append_assoc, ← List.drop_drop]
    simpa using h2
  · intro l hl k
    exact noBreak_drop (linesOf_noBreak m mid l hl) k

/-- About the spec: the widened span starts at a line start (`a0` is empty or ends with a
line ending), ends at a line end (`rem` is empty or starts with a line ending), adds only
text without line endings (`cl`, `cz`), and contains the original span. -/
theorem C18_widen_minimal (m : Metrics) (a mid z : Text) :
    ∃ a0 cl cz rem, a = a0 ++ cl ∧ z = cz ++ rem ∧
      widenSpec m a mid z = ⟨canon m a0, canon m (a ++ mid ++ cz)⟩ ∧
      (a0 = [] ∨ ∃ u B, a0 = u ++ B ∧ B.map (·.code) = lbCodes m) ∧
      (rem = [] ∨ (breakAt m rem).isSome) ∧
      (∀ k, breakAt m (cl.drop k) = none) ∧ (∀ k, breakAt m (cz.drop k) = none) ∧
      (widenSpec m a mid z).s.byte ≤ (canon m a).byte ∧
      (canon m (a ++ mid)).byte ≤ (widenSpec m a mid z).e.byte := by
  obtain ⟨a0, cl, I, h1, _, _, h4, h5, h6, h7, _⟩ := last_split m a
  obtain ⟨rem, hr, hcase⟩ := curLineSuf_prefix m z
  have hw : widenSpec m a mid z = ⟨canon m a0, canon m (a ++ mid ++ curLineSuf m z)⟩ := by
    simp only [widenSpec, h6, h7]
  refine ⟨a0, cl, curLineSuf m z, rem, h1, hr, hw, h4, ?_, noBreak_drop h5,
    noBreak_drop (curLineSuf_noBreak m z), ?_, ?_⟩
  · rcases hcase with ⟨h, _⟩ | ⟨rest, hb, _⟩
    · exact Or.inl h
    · exact Or.inr (by rw [hb]; rfl)
  · rw [hw]; simp only [canon_byte]; rw [h1]; simp
  · rw [hw]; simp

/-- Non-vacuity: a CRLF text `ab⏎c` cut as `a | b⏎c |` satisfies the hypotheses, the span
covers two lines, and the spec's pieces are `[1,2]` and `[4,5]` (bytes). -/
example :
    let m : Metrics := ⟨.crlf, 4⟩
    let a : Text := [⟨97, 1, 1⟩]
    let mid : Text := [⟨98, 1, 1⟩, ⟨13, 1, 0⟩, ⟨10, 1, 0⟩, ⟨99, 1, 1⟩]
    let z : Text := []
    1 ≤ m.tab ∧ Text.WF (a ++ mid ++ z) ∧ aligned m a (mid ++ z) = true ∧
      aligned m (a ++ mid) z = true ∧
      splitSpec m a mid z = [(2, ⟨⟨1, 0, 1⟩, ⟨2, 0, 2⟩⟩), (1, ⟨⟨4, 1, 0⟩, ⟨5, 1, 1⟩⟩)] ∧
      widenSpec m a mid z = ⟨⟨0, 0, 0⟩, ⟨5, 1, 1⟩⟩ := by
  refine ⟨by decide, ?_, by decide, by decide, ?_, ?_⟩
  · intro c hc; simp at hc; rcases hc with rfl | rfl | rfl | rfl | rfl <;> decide
  · simp [splitSpec, piecesFrom, canon, canonFrom, linesOf, breakAt, lbCodes, lbLen, stripCodes,
      colWidth, bytes, Pos.zero]
  · simp [widenSpec, curLinePre, curLineSuf, canon, canonFrom, linesOf, breakAt, lbCodes, stripCodes,
      colWidth, bytes, Pos.zero]

end Tephra.Props
