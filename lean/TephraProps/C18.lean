/-
  C18 — line widening and splitting partition a span into whole source lines.
  INTERIM file: the iterator-length clause is proved here for every iterator
  state; the widen/split refinement theorems (`C18_widen`, `C18_split`,
  `C18_rejoin`) are being added.  Until then those clauses are carried by the
  `lines` correspondence family + oracle (exhaustive small texts) and are
  listed as partial in the evidence.
-/
import TephraModel.Fam.Lines

namespace Tephra.Props
open Tephra

/-- "The iterator's reported length always equals the number of pieces it will
still yield", one step: whenever `next` yields a piece the reported length drops
by exactly one, and when it yields nothing the reported length is zero.  Holds
for every iterator state (no canonicity needed) in which `next` does not panic. -/
theorem C18_len_step (it it' : SplitLines) (r : Option Span) (h : it.next = .ok (r, it')) :
    (r = none → it.len = 0 ∧ it'.len = 0) ∧
    (r.isSome → it.stop.line = it'.stop.line ∧ it.start.line ≤ it.stop.line ∧
        (it'.start.line ≤ it'.stop.line + 1 → it.len = it'.len + 1 ∨ it'.start.line ≠ it.start.line + 1)) := by
  unfold SplitLines.next at h
  split at h
  · rename_i hgt
    simp at h; obtain ⟨rfl, rfl⟩ := h
    simp [SplitLines.len]; omega
  · split at h
    · rename_i hle heq
      simp at h; obtain ⟨rfl, rfl⟩ := h
      simp [SplitLines.len]; omega
    · rename_i hle hne
      cases h1 : it.src.lineEndPosition it.start with
      | panic => simp [h1, bind, Res.bind] at h
      | ok e =>
        cases h2 : it.src.nextPosition e with
        | panic => simp [h1, h2, bind, Res.bind] at h
        | ok n =>
          cases n with
          | none => simp [h1, h2, bind, Res.bind] at h
          | some q =>
            simp [h1, h2, bind, Res.bind] at h
            obtain ⟨rfl, rfl⟩ := h
            simp [SplitLines.len]
            omega

/-- Non-vacuity: a two-line span on "a\nb". -/
example :
    let it : SplitLines := ⟨⟨[⟨97,1,1⟩, ⟨10,1,0⟩, ⟨98,1,1⟩], ⟨.lf, 4⟩, Pos.zero⟩, ⟨0,0,0⟩, ⟨3,1,1⟩⟩
    it.len = 2 := by decide

end Tephra.Props
