/-
  C03 — every reported position is the true line and column of its byte offset.

  Part 1 (span crate; this file, proved): forward measurement is canonical —
  `ColumnMetrics::end_position` from a canonical start over any well-formed text
  is the canonical position (`Spec.canonFrom`: byte offset, number of configured
  line endings before it, display width since the last one with tabs advancing
  to the next stop), for every line-ending style, tab width and character
  widths.  Unbounded in the text.
  Part 2 (lexer, builders anywhere; `measureText` canonical): `TephraProps/C03Lexer.lean`.
-/
import TephraProofs.Canon

namespace Tephra.Props
open Tephra Tephra.Spec

/-- Measuring a whole text from position zero yields its canonical end position. -/
theorem C03_end_position_canonical (m : Metrics) (t : Text) (hwf : Text.WF t) :
    endPosition m t Pos.zero = .ok (canon m t) := by
  unfold endPosition
  by_cases h : bytes t ≤ Pos.zero.byte
  · -- empty text (every character has size ≥ 1)
    have ht : t = [] := by
      cases t with
      | nil => rfl
      | cons c r =>
        have := (hwf c (by simp)).1
        simp [bytes, Pos.zero] at h; omega
    subst ht
    simp [Pos.zero, bytes, canon, canonFrom, linesOf, colWidth]
  · simp only [h, if_false]
    have : splitAtByte t Pos.zero.byte = some ([], t) := by cases t <;> simp [splitAtByte, Pos.zero]
    rw [this]
    simp [endSuf_eq_canonFrom m Pos.zero t hwf, canon]

/-- Relative form used by scanners: measuring a chunk from any position `p`
gives `canonFrom p chunk`. -/
theorem C03_measure_chunk (m : Metrics) (p : Pos) (chunk : Text) (hwf : Text.WF chunk) :
    endSuf m p chunk = canonFrom m p chunk := endSuf_eq_canonFrom m p chunk hwf

/-- Non-vacuity: a CRLF text with a tab and a wide character is well-formed, and its
canonical end position is (7, 1, 2). -/
example :
    let t : Text := [⟨97, 1, 1⟩, ⟨9, 1, 0⟩, ⟨13, 1, 0⟩, ⟨10, 1, 0⟩, ⟨19990, 3, 2⟩]
    Text.WF t ∧ canon ⟨.crlf, 4⟩ t = ⟨7, 1, 2⟩ := by
  constructor
  · intro c hc; simp at hc; rcases hc with rfl | rfl | rfl | rfl | rfl <;> decide
  · simp [canon, canonFrom, linesOf, breakAt, lbCodes, stripCodes, colWidth, bytes, Pos.zero]

end Tephra.Props
