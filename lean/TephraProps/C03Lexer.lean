/-
  C03, lexer half — every position a lexer reports is canonical.

  English: let `P` be any property of positions that holds of position zero and
  is preserved by the scanner at the lexer's metrics (if a scan starts at a `P`
  position, the token's end is a `P` position).  Then every position stored in a
  lexer created by `Lexer::new` and driven by any sequence of `peek`, `next`,
  `next_if`, `set_filter`, `with_filter`, `start_sublex`, `into_sublexer`,
  `advance_to`, `advance_up_to`, `buffer_next`, `set_recover_state` satisfies
  `P`, and so do both endpoints of `token_span()`, `parse_span()`,
  `peek_token_span()`, `peek_parse_span()`, and `cursor_pos()`,
  `peek_cursor_pos()`.  None of these methods changes the metrics.
  Instantiated with `P p := p is the canonical position (Spec.canon) of a
  prefix of the text under the lexer's metrics` — which a scanner that measures
  its tokens with `ColumnMetrics` preserves, C03 part 1 — this is "every
  reported position is canonical as long as the metrics are not changed after
  the first scan".

  Excluded (hence `_partial`): the builder-order clause.  The full statement
  `C03_lexer_positions_statement` also allows `with_column_metrics`,
  `with_line_ending`, `with_tab_width` anywhere in the call sequence and asks
  for canonicity under the *current* metrics.  That is false of the real code —
  a recorded defect: `with_filter` / `set_filter` / `start_sublex` scan eagerly,
  so `Lexer::new(..).with_filter(f).with_tab_width(8)` holds a buffered token
  measured with the old tab width (`C03_lexer_builder_order_violates`).
  A metrics builder applied directly to `new` is harmless
  (`LexInv.new_withTabWidth` …: it is again a `new`).

  No scanner contract (`ScanOK`) is needed here; unbounded in everything.

  Interpreter half (`C03_run_spans`, = `C13_spans_from_lexer`): the same for
  everything the combinators build from a lexer.  For `P` closed under the
  scanner at the lexer's metrics: if the stored positions of the incoming lexer
  satisfy `P` and so do all spans / positions of the errors already in the sink
  log, then for every grammar, fuel, context and world, `run` hands back a lexer
  whose stored positions satisfy `P`, a value whose captured spans have both
  endpoints in `P`, an error whose every span / position field is in `P`, and a
  sink log all of whose errors are such.  With `P` = canonical: every position
  the parser layer ever reports is canonical.
-/
import TephraProofs.LexInv
import TephraProofs.RunSpans

namespace Tephra.Props
open Tephra

/-- Full statement (not a theorem of the real code, see above): `P m` is the
canonicity predicate under metrics `m`. -/
def C03_lexer_positions_statement : Prop :=
  ∀ (σ τ : Type) (E : LexEnv σ τ) (P : Metrics → Pos → Prop),
    (∀ m, P m Pos.zero) → (∀ m, Closed E (P m) m) →
    ∀ lx : Lexer σ τ, Lexer.ReachAll E lx → PosOK (P lx.metrics) lx

variable {σ τ : Type}

/-- The stored-position invariant and every reported position, for lexers whose
metrics are not changed after creation. -/
theorem C03_lexer_positions_partial (E : LexEnv σ τ) (P : Pos → Prop) (lx : Lexer σ τ)
    (h0 : P Pos.zero) (hr : Lexer.Reach E lx) (hc : Closed E P lx.metrics) :
    PosOK P lx ∧
    (P lx.tokenSpan.s ∧ P lx.tokenSpan.e) ∧ (P lx.parseSpan.s ∧ P lx.parseSpan.e) ∧
    P lx.cursorPos ∧
    (∀ sp, lx.peekTokenSpan = some sp → P sp.s ∧ P sp.e) ∧
    (∀ sp, lx.peekParseSpan = some sp → P sp.s ∧ P sp.e) ∧
    (∀ p, lx.peekCursorPos = some p → P p) := by
  have h := LexInv.reach_pos h0 hr hc
  exact ⟨h, LexInv.tokenSpan_pos h, LexInv.parseSpan_pos h, LexInv.cursorPos_pos h,
    LexInv.peekTokenSpan_pos h, LexInv.peekParseSpan_pos h, LexInv.peekCursorPos_pos h⟩

/-- One method call: the invariant is preserved and the metrics are unchanged. -/
theorem C03_lexer_step (E : LexEnv σ τ) (P : Pos → Prop) {lx lx' : Lexer σ τ}
    (hs : Lexer.Step E lx lx') (hc : Closed E P lx.metrics) (hp : PosOK P lx) :
    PosOK P lx' ∧ lx'.metrics = lx.metrics :=
  ⟨LexInv.step_pos hs hc hp, LexInv.step_metrics hs⟩

theorem C03_lexer_new (P : Pos → Prop) (h0 : P Pos.zero) (s0 : σ) (m : Metrics) (len : Nat) :
    PosOK P (Lexer.new s0 m len : Lexer σ τ) := LexInv.new_pos h0 s0 m len

/-- Interpreter half: every position in every result, error and logged error of
`run` satisfies `P`.  (Non-vacuity: see `TephraProps/C13.lean`, `one_fails`.) -/
theorem C03_run_spans (R : RunEnv) (P : Pos → Prop) (n : Nat) (g : G) (lx : Lx) (ctx : Ctx) (W : World)
    (hc : Closed R.E P lx.metrics) (hp : PosOK P lx) (hW : ∀ e ∈ W.log, ErrP P e.body) :
    (∀ v lx', (run R n g lx ctx W).1 = .ok v lx' → PosOK P lx' ∧ ValP P v) ∧
    (∀ e, (run R n g lx ctx W).1 = .err e → ErrP P e.body) ∧
    (∀ e ∈ (run R n g lx ctx W).2.log, ErrP P e.body) :=
  RunSpans.run_spans R P n g lx ctx W hc hp hW

/-! Non-vacuity, and the excluded clause as a theorem about the model of the
real code: a one-tab text.  The scanner reports the end of the tab at column
`tab`; `P m` = "zero or the canonical end under `m`". -/

def tabScan : Unit → Metrics → Pos → Option (Unit × Pos) × Unit := fun s m p =>
  if p.byte = 0 then (some ((), ⟨1, 0, m.tab⟩), s) else (none, s)

def tabEnv : LexEnv Unit Unit := ⟨tabScan, fun _ _ => true⟩

def tabP (m : Metrics) (p : Pos) : Prop := p = Pos.zero ∨ p = ⟨1, 0, m.tab⟩

theorem tabP_closed (m : Metrics) : Closed tabEnv (tabP m) m := by
  intro s p tok adv s' _ h
  simp only [tabEnv, tabScan] at h
  split at h
  · cases h; exact Or.inr rfl
  · cases h

/-- Non-vacuity of `C03_lexer_positions_partial`: a lexer two calls away from `new`. -/
example : ∃ lx : Lexer Unit Unit, Lexer.Reach tabEnv lx ∧ Closed tabEnv (tabP ⟨.lf, 4⟩) lx.metrics ∧
    tabP ⟨.lf, 4⟩ Pos.zero :=
  ⟨_, .step (.step (.new () ⟨.lf, 4⟩ 1) (.withFilter none _)) (.next _),
    by rw [LexInv.step_metrics (.next _), LexInv.step_metrics (.withFilter none _)]; exact tabP_closed _,
    Or.inl rfl⟩

/-- The builder-order defect: after `new(..tab 4..).with_filter(None).with_tab_width(8)`
the buffered token ends at column 4, which is not canonical for tab width 8. -/
theorem C03_lexer_builder_order_violates : ¬ C03_lexer_positions_statement := by
  intro h
  have hr : Lexer.ReachAll tabEnv
      (((Lexer.new () ⟨.lf, 4⟩ 1).withFilter tabEnv none).withTabWidth 8) :=
    .mstep (.step (.new _ _ _) (.withFilter none _)) (.withTabWidth 8 _)
  have := (h Unit Unit tabEnv tabP (fun _ => Or.inl rfl) tabP_closed _ hr).2.2.2
  have hb : (((Lexer.new () ⟨.lf, 4⟩ 1).withFilter tabEnv none).withTabWidth 8).buffer =
      some ⟨(), Pos.zero, ⟨1, 0, 4⟩, ()⟩ := by
    simp [Lexer.withTabWidth, Lexer.withFilter, Lexer.setFilter, Lexer.bufferNext, Lexer.new]
    rw [Lexer.bufferLoop]
    simp [tabEnv, tabScan, Lexer.filtered, Pos.zero]
  have := (this _ hb).2
  simp [tabP, Lexer.withTabWidth, Lexer.withFilter, Lexer.setFilter, Pos.zero] at this

end Tephra.Props
