/-
  C03, lexer half — every position a lexer reports is canonical.

  English: let `P m` be, for every choice of metrics `m`, a property of
  positions that holds of position zero and is preserved by the scanner when it
  is given the metrics `m` (if a scan starts at a `P m` position, the token's
  end is a `P m` position); and suppose that re-measuring a `P m` position from
  its byte offset with other metrics `m'` — what the repaired
  `with_column_metrics` / `with_line_ending` / `with_tab_width` do to every
  position the lexer holds — gives a `P m'` position.  Then every position
  stored in a lexer created by `Lexer::new` and driven by ANY sequence of
  `peek`, `next`, `next_if`, `set_filter`, `with_filter`, `start_sublex`,
  `into_sublexer`, `advance_to`, `advance_up_to`, `buffer_next`,
  `set_recover_state` AND the three metrics builders, in any order, satisfies
  `P` of the lexer's *current* metrics, and so do both endpoints of
  `token_span()`, `parse_span()`, `peek_token_span()`, `peek_parse_span()`, and
  `cursor_pos()`, `peek_cursor_pos()`  (`C03_lexer_positions`, which is
  `C03_lexer_positions_statement`).

  History.  On the pinned tree the builder-order clause was false (finding F11):
  `with_filter` / `set_filter` / `start_sublex` scan eagerly, so
  `Lexer::new(..).with_filter(f).with_tab_width(8)` held a buffered token
  measured with the old tab width.  Repaired in cbd4024: the builders re-measure
  the cursor, token start, parse start and the buffered lookahead from their
  byte offsets (`Lexer.remeasureAll`, `LexEnv.measure`).  The clause is now
  proved, not excluded; the former witness is `C03_former_F11_witness` (the
  buffered token `a` of `"\t\ta"` is now reported at column 16).
  `C03_lexer_positions_partial` (metrics not changed after creation; needs no
  hypothesis on `measure`) is kept.

  Instantiation (`C03_lexer_canonical`): over a well-formed text `t`, with
  `measure` = `measureText t` (`end_position(&text[..b])`), every position of
  every reachable lexer is `Spec.canon lx.metrics pre` for a cut `t = pre ++ suf`
  with `Q pre suf`, where `Q` is any *metrics-independent* description of the
  offsets the scanner stops at, provided the scanner maps such positions to such
  positions (`Closed`).  `Q := fun _ _ => True`: the position is the canonical
  measurement of that prefix.  `Q := AlignedAll` (never between a CR and an LF):
  the position is `Spec.isCanon` (`C03_lexer_isCanon`).  For the harness
  scanners `Closed` is proved (`C03_harness_closed`), so
  `C03_harness_lexer_canonical` has no scanner hypothesis at all.
  `measureText` itself: `C03_measure_canonical` (any character boundary — the
  prefix is measured on its own, no alignment needed), `C03_measure_isCanon`
  (with alignment for the new metrics as a named hypothesis: then the result is
  `Spec.isCanon`).

  The alignment subtlety.  `Q` must not depend on the metrics: an offset aligned
  for `lf` (every boundary is) may lie between the CR and the LF of a CRLF pair,
  and after `with_line_ending(CrLf)` the cursor is still there — its position is
  the canonical measurement of the prefix ending in CR, but not a `Spec.isCanon`
  position of the text.  So the statement "every position is `isCanon` for the
  current metrics, for every scanner that is `isCanon`-closed at each metrics" is
  FALSE: `C03_lexer_isCanon_per_metrics_fails` (text `"\r\n"`, a scanner that
  takes one character under `lf` and the pair under `crlf`).

  No scanner contract (`ScanOK`) is needed here; unbounded in everything.

  Interpreter half (`C03_run_spans`, = `C13_spans_from_lexer`): the same for
  everything the combinators build from a lexer.  For `P` closed under the
  scanner at the lexer's metrics: if the stored positions of the incoming lexer
  satisfy `P` and so do all spans / positions of the errors already in the sink
  log, then for every grammar, fuel, context and world, `run` hands back a lexer
  whose stored positions satisfy `P`, a value whose captured spans have both
  endpoints in `P`, an error whose every span / position field is in `P`, and a
  sink log all of whose errors are such.  With `P` = canonical: every position
  the parser layer ever reports is canonical.
-/
import TephraProofs.LexInv
import TephraProofs.RunSpans
import TephraProofs.MeasureCanon
import TephraProofs.ScanClosed

namespace Tephra.Props
open Tephra

/-- The stored-position invariant together with every reported position. -/
def ReportedOK {σ τ : Type} (P : Pos → Prop) (lx : Lexer σ τ) : Prop :=
  PosOK P lx ∧
  (P lx.tokenSpan.s ∧ P lx.tokenSpan.e) ∧ (P lx.parseSpan.s ∧ P lx.parseSpan.e) ∧
  P lx.cursorPos ∧
  (∀ sp, lx.peekTokenSpan = some sp → P sp.s ∧ P sp.e) ∧
  (∀ sp, lx.peekParseSpan = some sp → P sp.s ∧ P sp.e) ∧
  (∀ p, lx.peekCursorPos = some p → P p)

theorem ReportedOK.of_posOK {σ τ : Type} {P : Pos → Prop} {lx : Lexer σ τ} (h : PosOK P lx) :
    ReportedOK P lx :=
  ⟨h, LexInv.tokenSpan_pos h, LexInv.parseSpan_pos h, LexInv.cursorPos_pos h,
    LexInv.peekTokenSpan_pos h, LexInv.peekParseSpan_pos h, LexInv.peekCursorPos_pos h⟩

/-- Full statement (a theorem since the repair cbd4024: `C03_lexer_positions`): metrics builders
anywhere; `P m` is the canonicity predicate under metrics `m`.  The third hypothesis is about the
environment's `measure`: re-measuring (`Lexer.remeasure`: `E.measure m' p.byte`, or `p` itself when
`p.byte = 0`) a `P m` position gives a `P m'` position. -/
def C03_lexer_positions_statement : Prop :=
  ∀ (σ τ : Type) (E : LexEnv σ τ) (P : Metrics → Pos → Prop),
    (∀ m, P m Pos.zero) → (∀ m, Closed E (P m) m) →
    (∀ m m' p, P m p → P m' (Lexer.remeasure E m' p)) →
    ∀ lx : Lexer σ τ, Lexer.ReachAll E lx → ReportedOK (P lx.metrics) lx

variable {σ τ : Type}

/-- The stored-position invariant and every reported position, for lexers whose
metrics are not changed after creation. -/
theorem C03_lexer_positions_partial (E : LexEnv σ τ) (P : Pos → Prop) (lx : Lexer σ τ)
    (h0 : P Pos.zero) (hr : Lexer.Reach E lx) (hc : Closed E P lx.metrics) :
    PosOK P lx ∧
    (P lx.tokenSpan.s ∧ P lx.tokenSpan.e) ∧ (P lx.parseSpan.s ∧ P lx.parseSpan.e) ∧
    P lx.cursorPos ∧
    (∀ sp, lx.peekTokenSpan = some sp → P sp.s ∧ P sp.e) ∧
    (∀ sp, lx.peekParseSpan = some sp → P sp.s ∧ P sp.e) ∧
    (∀ p, lx.peekCursorPos = some p → P p) := by
  have h := LexInv.reach_pos h0 hr hc
  exact ⟨h, LexInv.tokenSpan_pos h, LexInv.parseSpan_pos h, LexInv.cursorPos_pos h,
    LexInv.peekTokenSpan_pos h, LexInv.peekParseSpan_pos h, LexInv.peekCursorPos_pos h⟩

/-- One method call: the invariant is preserved and the metrics are unchanged. -/
theorem C03_lexer_step (E : LexEnv σ τ) (P : Pos → Prop) {lx lx' : Lexer σ τ}
    (hs : Lexer.Step E lx lx') (hc : Closed E P lx.metrics) (hp : PosOK P lx) :
    PosOK P lx' ∧ lx'.metrics = lx.metrics :=
  ⟨LexInv.step_pos hs hc hp, LexInv.step_metrics hs⟩

theorem C03_lexer_new (P : Pos → Prop) (h0 : P Pos.zero) (s0 : σ) (m : Metrics) (len : Nat) :
    PosOK P (Lexer.new s0 m len : Lexer σ τ) := LexInv.new_pos h0 s0 m len

/-- One metrics builder (`with_column_metrics` / `with_line_ending` / `with_tab_width`, repaired):
the invariant moves from the old metrics to the new ones. -/
theorem C03_lexer_mstep (E : LexEnv σ τ) (P : Metrics → Pos → Prop) {lx lx' : Lexer σ τ}
    (hre : ∀ m m' p, P m p → P m' (Lexer.remeasure E m' p))
    (hs : Lexer.MStep E lx lx') (hp : PosOK (P lx.metrics) lx) : PosOK (P lx'.metrics) lx' :=
  LexInv.mstep_pos hre hs hp

/-- The full lexer theorem, metrics builders anywhere in the call sequence. -/
theorem C03_lexer_positions : C03_lexer_positions_statement := by
  intro σ τ E P h0 hc hre lx hr
  exact ReportedOK.of_posOK (LexInv.reachAll_pos h0 hc hre hr)

/-- The same with the hypothesis on `E.measure` split in its two halves: a held position at byte 0
is kept by the builders (so it must be `P` for every metrics), any other is `E.measure m' p.byte`. -/
theorem C03_lexer_positions_measure (E : LexEnv σ τ) (P : Metrics → Pos → Prop)
    (h0 : ∀ m, P m Pos.zero) (hc : ∀ m, Closed E (P m) m)
    (hz : ∀ m m' p, P m p → p.byte = 0 → P m' p)
    (hmeas : ∀ m m' p, P m p → p.byte ≠ 0 → P m' (E.measure m' p.byte))
    (lx : Lexer σ τ) (hr : Lexer.ReachAll E lx) : ReportedOK (P lx.metrics) lx :=
  C03_lexer_positions σ τ E P h0 hc (LexInv.remeasure_of_measure hz hmeas) lx hr

/-- Interpreter half: every position in every result, error and logged error of
`run` satisfies `P`.  (Non-vacuity: see `TephraProps/C13.lean`, `one_fails`.) -/
theorem C03_run_spans (R : RunEnv) (P : Pos → Prop) (n : Nat) (g : G) (lx : Lx) (ctx : Ctx) (W : World)
    (hc : Closed R.E P lx.metrics) (hp : PosOK P lx) (hW : ∀ e ∈ W.log, ErrP P e.body) :
    (∀ v lx', (run R n g lx ctx W).1 = .ok v lx' → PosOK P lx' ∧ ValP P v) ∧
    (∀ e, (run R n g lx ctx W).1 = .err e → ErrP P e.body) ∧
    (∀ e ∈ (run R n g lx ctx W).2.log, ErrP P e.body) :=
  RunSpans.run_spans R P n g lx ctx W hc hp hW

/-! ### Non-vacuity of the generic statements: a one-tab text.

The scanner reports the end of the tab at column `tab`; `tabP m` = "zero or the canonical end under
`m`"; `measure` is the real one for that text. -/

def tabText : Text := [⟨9, 1, 0⟩]

def tabScan : Unit → Metrics → Pos → Option (Unit × Pos) × Unit := fun s m p =>
  if p.byte = 0 then (some ((), ⟨1, 0, m.tab⟩), s) else (none, s)

def tabEnv : LexEnv Unit Unit := ⟨tabScan, fun _ _ => true, measureText tabText⟩

def tabP (m : Metrics) (p : Pos) : Prop := p = Pos.zero ∨ p = ⟨1, 0, m.tab⟩

theorem tabP_closed (m : Metrics) : Closed tabEnv (tabP m) m := by
  intro s p tok adv s' _ h
  simp only [tabEnv, tabScan] at h
  split at h
  · cases h; exact Or.inr rfl
  · cases h

theorem tabText_measure (m : Metrics) : measureText tabText m 1 = ⟨1, 0, m.tab⟩ := by
  have hw : Text.WF tabText := by intro c hc; simp [tabText] at hc; subst hc; decide
  have h := MeasureCanon.measureText_cut m tabText [] hw
  obtain ⟨le, tab⟩ := m
  rw [List.append_nil] at h
  rw [show bytes tabText = 1 from rfl] at h
  rw [h]
  cases le <;>
    simp [tabText, Spec.canon, Spec.canonFrom, Spec.linesOf, breakAt, lbCodes, stripCodes,
      Spec.colWidth, bytes, Pos.zero]

theorem tabP_remeasure (m m' : Metrics) (p : Pos) (h : tabP m p) :
    tabP m' (Lexer.remeasure tabEnv m' p) := by
  rcases h with rfl | rfl
  · exact Or.inl rfl
  · right
    simp [Lexer.remeasure, tabEnv, tabText_measure]

/-- Non-vacuity of `C03_lexer_positions_partial`: a lexer two calls away from `new`. -/
example : ∃ lx : Lexer Unit Unit, Lexer.Reach tabEnv lx ∧ Closed tabEnv (tabP ⟨.lf, 4⟩) lx.metrics ∧
    tabP ⟨.lf, 4⟩ Pos.zero :=
  ⟨_, .step (.step (.new () ⟨.lf, 4⟩ 1) (.withFilter none _)) (.next _),
    by rw [LexInv.step_metrics (.next _), LexInv.step_metrics (.withFilter none _)]; exact tabP_closed _,
    Or.inl rfl⟩

/-- Non-vacuity of `C03_lexer_positions`: its three hypotheses hold of `tabEnv` / `tabP`, and
`new(..tab 4..).with_filter(None).with_tab_width(8)` (the shape of the former defect) is reachable;
its buffered token now ends at column 8. -/
example : (∀ m, tabP m Pos.zero) ∧ (∀ m, Closed tabEnv (tabP m) m) ∧
    (∀ m m' p, tabP m p → tabP m' (Lexer.remeasure tabEnv m' p)) ∧
    ∃ lx : Lexer Unit Unit, Lexer.ReachAll tabEnv lx ∧ lx.metrics = ⟨.lf, 8⟩ ∧
      lx.peekCursorPos = some ⟨1, 0, 8⟩ := by
  refine ⟨fun _ => Or.inl rfl, tabP_closed, tabP_remeasure,
    ((Lexer.new () ⟨.lf, 4⟩ 1).withFilter tabEnv none).withTabWidth tabEnv 8,
    .mstep (.step (.new _ _ _) (.withFilter none _)) (.withTabWidth 8 _), by simp [Lexer.new], ?_⟩
  have hb : ((Lexer.new () ⟨.lf, 4⟩ 1).withFilter tabEnv none).buffer =
      some ⟨(), Pos.zero, ⟨1, 0, 4⟩, ()⟩ := by
    simp [Lexer.withFilter, Lexer.setFilter, Lexer.bufferNext, Lexer.new]
    rw [Lexer.bufferLoop]
    simp [tabEnv, tabScan, Lexer.filtered, Pos.zero]
  simp only [Lexer.peekCursorPos, Lexer.withTabWidth, Lexer.remeasureAll, hb]
  simp [Lexer.remeasure, tabEnv, tabText_measure, Lexer.new]

/-! ### `measureText` is canonical -/

/-- The `measure` of `lexEnv cfg t`: byte offset `bytes pre` of the text `pre ++ suf`, measured with
any metrics `m`, is the canonical position `Spec.canon m pre` of that prefix.  `pre` well-formed; no
alignment hypothesis (the prefix is measured on its own). -/
theorem C03_measure_canonical (m : Metrics) (pre suf : Text) (hwf : Text.WF pre) :
    measureText (pre ++ suf) m (bytes pre) = Spec.canon m pre :=
  MeasureCanon.measureText_cut m pre suf hwf

/-- Byte-offset form: `b` a character boundary of a well-formed `t`. -/
theorem C03_measure_canonical_at (m : Metrics) (t : Text) (hwf : Text.WF t) (b : Nat)
    (pre suf : Text) (hb : splitAtByte t b = some (pre, suf)) :
    measureText t m b = Spec.canon m pre := by
  obtain ⟨rfl, rfl⟩ := MeasureCanon.splitAtByte_some t b pre suf hb
  exact MeasureCanon.measureText_cut m pre suf (WF_append.mp hwf).1

/-- With alignment for the metrics used (named hypothesis `hal`): the measured position is a
canonical position of the text in the sense of `Spec.isCanon`. -/
theorem C03_measure_isCanon (m : Metrics) (pre suf : Text) (hwf : Text.WF (pre ++ suf))
    (hal : Spec.aligned m pre suf = true) :
    Spec.isCanon m (pre ++ suf) (measureText (pre ++ suf) m (bytes pre)) = true := by
  rw [MeasureCanon.measureText_cut m pre suf (WF_append.mp hwf).1]
  exact (MeasureCanon.isCanon_iff m _ hwf _).mpr ⟨pre, suf, rfl, hal, rfl⟩

def crlfText : Text := [⟨13, 1, 0⟩, ⟨10, 1, 0⟩]

theorem crlfText_wf : Text.WF crlfText := by
  intro c hc; simp [crlfText] at hc; rcases hc with rfl | rfl <;> decide

theorem crlfText_isCanon (m : Metrics) (p : Pos) :
    Spec.isCanon m crlfText p = true ↔
      p = Pos.zero ∨ p = ⟨2, 1, 0⟩ ∨ (m.le = .lf ∧ p = ⟨1, 0, 0⟩) ∨ (m.le = .cr ∧ p = ⟨1, 1, 0⟩) := by
  obtain ⟨le, tab⟩ := m
  obtain ⟨b, l, c⟩ := p
  match b with
  | 0 =>
    cases le <;>
      simp [Spec.isCanon, Spec.canonAt, Spec.cutAt, splitAtByte, Spec.aligned, crlfText, Spec.canon,
        Spec.canonFrom, Spec.linesOf, Spec.colWidth, bytes, Pos.zero] <;> omega
  | 1 =>
    cases le <;>
      simp [Spec.isCanon, Spec.canonAt, Spec.cutAt, splitAtByte, Spec.aligned, crlfText, Spec.canon,
        Spec.canonFrom, Spec.linesOf, breakAt, lbCodes, stripCodes, Spec.colWidth, bytes, Pos.zero] <;> omega
  | 2 =>
    cases le <;>
      simp [Spec.isCanon, Spec.canonAt, Spec.cutAt, splitAtByte, Spec.aligned, crlfText, Spec.canon,
        Spec.canonFrom, Spec.linesOf, breakAt, lbCodes, stripCodes, Spec.colWidth, bytes, Pos.zero] <;> omega
  | b + 3 =>
    cases le <;>
      simp [Spec.isCanon, Spec.canonAt, Spec.cutAt, splitAtByte, crlfText, Pos.zero]

/-- `hal` is necessary: byte 1 of `"\r\n"` is a canonical position under `lf`; measured under
`crlf` it is still the canonical measurement of the prefix `"\r"`, but not `Spec.isCanon`. -/
example :
    Spec.isCanon ⟨.lf, 4⟩ crlfText ⟨1, 0, 0⟩ = true ∧
    measureText crlfText ⟨.crlf, 4⟩ 1 = ⟨1, 0, 0⟩ ∧ Spec.canon ⟨.crlf, 4⟩ [⟨13, 1, 0⟩] = ⟨1, 0, 0⟩ ∧
    Spec.isCanon ⟨.crlf, 4⟩ crlfText ⟨1, 0, 0⟩ = false := by
  have hc : Spec.canon ⟨.crlf, 4⟩ [⟨13, 1, 0⟩] = ⟨1, 0, 0⟩ := by
    simp [Spec.canon, Spec.canonFrom, Spec.linesOf, breakAt, lbCodes, stripCodes, Spec.colWidth,
      bytes, Pos.zero]
  have hw : Text.WF ([⟨13, 1, 0⟩] : Text) := by intro c hc; simp at hc; subst hc; decide
  have hm := MeasureCanon.measureText_cut ⟨.crlf, 4⟩ [⟨13, 1, 0⟩] [⟨10, 1, 0⟩] hw
  refine ⟨?_, ?_, hc, ?_⟩
  · rw [crlfText_isCanon]; simp
  · rw [← hc, ← hm]; rfl
  · rw [Bool.eq_false_iff, Ne, crlfText_isCanon]; simp [Pos.zero]

/-! ### The lexer over a text: every position is canonical, builders anywhere -/

/-- Every position of every lexer reachable — through any sequence of public calls, metrics
builders anywhere — over an environment whose `measure` is `measureText t` (`t` well-formed) is
`Spec.canon lx.metrics pre` for a cut `t = pre ++ suf` with `Q pre suf` (so `pre` is the prefix of
`t` of `p.byte` bytes).  `Q` is a metrics-independent property of cuts, true of the cut at 0;
hypothesis on the scanner: at every metrics `m` it maps such positions (for `m`) to such positions
(for `m`). -/
theorem C03_lexer_canonical (E : LexEnv σ τ) (t : Text) (hwf : Text.WF t)
    (hE : E.measure = measureText t) (Q : Text → Text → Prop) (hQ0 : Q [] t)
    (hc : ∀ m, Closed E (CanonCut t Q m) m)
    (lx : Lexer σ τ) (hr : Lexer.ReachAll E lx) : ReportedOK (CanonCut t Q lx.metrics) lx :=
  C03_lexer_positions σ τ E (CanonCut t Q) (MeasureCanon.canonCut_zero t Q hQ0) hc
    (MeasureCanon.canonCut_remeasure E t hwf hE Q) lx hr

/-- `Q := True`: every position is the canonical measurement, under the current metrics, of the
prefix of `t` of that many bytes. -/
theorem C03_lexer_canonical_prefix (E : LexEnv σ τ) (t : Text) (hwf : Text.WF t)
    (hE : E.measure = measureText t)
    (hc : ∀ m, Closed E (fun p => ∃ pre suf, t = pre ++ suf ∧ p = Spec.canon m pre) m)
    (lx : Lexer σ τ) (hr : Lexer.ReachAll E lx) :
    ReportedOK (fun p => ∃ pre suf, t = pre ++ suf ∧ bytes pre = p.byte ∧
      p = Spec.canon lx.metrics pre) lx := by
  have h := LexInv.reachAll_pos (E := E)
    (Pm := fun m p => ∃ pre suf, t = pre ++ suf ∧ bytes pre = p.byte ∧ p = Spec.canon m pre) (lx := lx)
    (fun m => ⟨[], t, rfl, rfl, (canon_nil m).symm⟩)
    (by
      intro m s p tok adv s' ⟨pre, suf, h1, _, h2⟩ hs
      obtain ⟨pre', suf', h1', h2'⟩ := hc m s p tok adv s' ⟨pre, suf, h1, h2⟩ hs
      exact ⟨pre', suf', h1', by rw [h2', canon_byte], h2'⟩)
    (by
      intro m m' p ⟨pre, suf, h1, _, h2⟩
      obtain ⟨pre', suf', h1', _, h2'⟩ :=
        MeasureCanon.canonCut_remeasure E t hwf hE (fun _ _ => True) m m' p ⟨pre, suf, h1, trivial, h2⟩
      exact ⟨pre', suf', h1', by rw [h2', canon_byte], h2'⟩)
    hr
  exact ReportedOK.of_posOK h

/-- `Q := AlignedAll` (the scanner never stops between a CR and an LF): every position is a
canonical position of the text for the current metrics, `Spec.isCanon`. -/
theorem C03_lexer_isCanon (E : LexEnv σ τ) (t : Text) (hwf : Text.WF t)
    (hE : E.measure = measureText t) (hc : ∀ m, Closed E (CanonCut t AlignedAll m) m)
    (lx : Lexer σ τ) (hr : Lexer.ReachAll E lx) :
    ReportedOK (fun p => Spec.isCanon lx.metrics t p = true) lx := by
  have h := (C03_lexer_canonical E t hwf hE AlignedAll (MeasureCanon.alignedAll_nil t) hc lx hr).1
  have h' : PosOK (fun p => Spec.isCanon lx.metrics t p = true) lx :=
    ⟨MeasureCanon.isCanon_of_alignedAll _ t hwf _ h.1,
     MeasureCanon.isCanon_of_alignedAll _ t hwf _ h.2.1,
     MeasureCanon.isCanon_of_alignedAll _ t hwf _ h.2.2.1,
     fun b hb => ⟨MeasureCanon.isCanon_of_alignedAll _ t hwf _ (h.2.2.2 b hb).1,
       MeasureCanon.isCanon_of_alignedAll _ t hwf _ (h.2.2.2 b hb).2⟩⟩
  exact ReportedOK.of_posOK h'

/-- The scanner hypothesis of `C03_lexer_isCanon` holds of the harness scanners, for every
configuration, text and metrics. -/
theorem C03_harness_closed (cfg : ScanCfg) (t : Text) (hwf : Text.WF t) (m : Metrics) :
    Closed (lexEnv cfg t) (CanonCut t AlignedAll m) m := ScanClosed.scanText_closed cfg t hwf m

/-- Hence, with no hypothesis on the scanner: every position of every lexer reachable over
`lexEnv cfg t` is `Spec.isCanon` for the lexer's current metrics. -/
theorem C03_harness_lexer_canonical (cfg : ScanCfg) (t : Text) (hwf : Text.WF t)
    (lx : Lexer Nat Tok) (hr : Lexer.ReachAll (lexEnv cfg t) lx) :
    ReportedOK (fun p => Spec.isCanon lx.metrics t p = true) lx :=
  C03_lexer_isCanon (lexEnv cfg t) t hwf rfl (C03_harness_closed cfg t hwf) lx hr

/-! ### The alignment subtlety: `isCanon` per metrics is not preserved by `with_line_ending`

A scanner over `"\r\n"` that takes one character at a time under `lf` / `cr` and the pair under
`crlf`; all its positions are absolute and `Spec.isCanon` for the metrics it is given. -/

def crlfScan : Unit → Metrics → Pos → Option (Unit × Pos) × Unit := fun s m p =>
  match m.le, p.byte with
  | .crlf, 0 => (some ((), ⟨2, 1, 0⟩), s)
  | .lf, 0 => (some ((), ⟨1, 0, 0⟩), s)
  | .lf, 1 => (some ((), ⟨2, 1, 0⟩), s)
  | .cr, 0 => (some ((), ⟨1, 1, 0⟩), s)
  | .cr, 1 => (some ((), ⟨2, 1, 0⟩), s)
  | _, _ => (none, s)

def crlfEnv : LexEnv Unit Unit := ⟨crlfScan, fun _ _ => true, measureText crlfText⟩

theorem crlfScan_closed (m : Metrics) :
    Closed crlfEnv (fun p => Spec.isCanon m crlfText p = true) m := by
  intro s p tok adv s' _ h
  simp only [crlfEnv, crlfScan] at h
  rw [crlfText_isCanon]
  split at h <;> cases h <;> simp_all

/-- "Every position is `Spec.isCanon` for the current metrics, for every scanner that preserves
`isCanon m` at each `m`" is false, repaired builders or not: after `next` under `lf` the cursor is
between the CR and the LF, and `with_line_ending(CrLf)` leaves it there. -/
theorem C03_lexer_isCanon_per_metrics_fails :
    ¬ (∀ (σ τ : Type) (E : LexEnv σ τ) (t : Text), Text.WF t → E.measure = measureText t →
        (∀ m, Closed E (fun p => Spec.isCanon m t p = true) m) →
        ∀ lx : Lexer σ τ, Lexer.ReachAll E lx →
          PosOK (fun p => Spec.isCanon lx.metrics t p = true) lx) := by
  intro h
  have hr : Lexer.ReachAll crlfEnv
      (((Lexer.new () ⟨.lf, 4⟩ 2).next crlfEnv).2.withLineEnding crlfEnv .crlf) :=
    .mstep (.step (.new _ _ _) (.next _)) (.withLineEnding .crlf _)
  have h1 := (h Unit Unit crlfEnv crlfText crlfText_wf rfl crlfScan_closed _ hr).2.2.1
  have hcur : ((Lexer.new () ⟨.lf, 4⟩ 2).next crlfEnv).2.cursor = ⟨1, 0, 0⟩ := by
    simp [Lexer.next, Lexer.new, Pos.zero]
    rw [Lexer.nextLoop]
    simp [crlfEnv, crlfScan, Lexer.filtered]
  have hw : Text.WF ([⟨13, 1, 0⟩] : Text) := by intro c hc; simp at hc; subst hc; decide
  have hm : measureText crlfText ⟨.crlf, 4⟩ 1 = ⟨1, 0, 0⟩ := by
    have := MeasureCanon.measureText_cut ⟨.crlf, 4⟩ [⟨13, 1, 0⟩] [⟨10, 1, 0⟩] hw
    rw [show measureText crlfText ⟨.crlf, 4⟩ 1 = _ from this]
    simp [Spec.canon, Spec.canonFrom, Spec.linesOf, breakAt, lbCodes, stripCodes, Spec.colWidth,
      bytes, Pos.zero]
  have hc2 : (((Lexer.new () ⟨.lf, 4⟩ 2).next crlfEnv).2.withLineEnding crlfEnv .crlf).cursor
      = ⟨1, 0, 0⟩ := by
    simp only [Lexer.withLineEnding, Lexer.remeasureAll, hcur, Lexer.remeasure]
    simp [crlfEnv, hm, LexInv.next_metrics, Lexer.new]
  rw [hc2, crlfText_isCanon] at h1
  simp [Pos.zero, Lexer.withLineEnding, Lexer.remeasureAll] at h1

/-! ### The former F11 witness

`"\t\ta"`, whitespace filtered: `new(tab 4).with_filter(f).with_tab_width(8)`.  Before the repair
the buffered `a` kept the columns 8–9 measured with tab width 4; now every held position is
re-measured, the token is at columns 16–17, and the lexer is the one obtained by configuring the
tab width first. -/

def f11Text : Text := [⟨9, 1, 0⟩, ⟨9, 1, 0⟩, ⟨97, 1, 1⟩]
def f11Env : LexEnv Nat Tok := lexEnv (ScanCfg.ofId 0) f11Text

private theorem f11_step (tab : Nat) (p : Pos) (c : Ch) (r : Text) : stepSuf ⟨.lf, tab⟩ p (c :: r) =
    if c.code = 10 then some (⟨p.byte + 1, p.line + 1, 0⟩, r) else some (stepCh ⟨.lf, tab⟩ p c, r) := by
  simp only [stepSuf, breakAt, lbCodes, stripCodes, lbLen]; split <;> simp_all

private theorem f11_ws (tab : Nat) : afterMatchingSuf ⟨.lf, tab⟩ isWs ⟨0, 0, 0⟩
    [⟨9, 1, 0⟩, ⟨9, 1, 0⟩, ⟨97, 1, 1⟩] = ⟨2, 0, tab + tab⟩ := by
  rw [afterMatchingSuf, f11_step]
  simp [stepCh, isWs]
  rw [afterMatchingSuf, f11_step]
  simp [stepCh, isWs]
  rw [afterMatchingSuf, f11_step]
  simp [stepCh, isWs]

private theorem f11_scan0 (tab : Nat) : scanText (ScanCfg.ofId 0) f11Text 1 ⟨.lf, tab⟩ ⟨0, 0, 0⟩
    = (some (⟨12, 0⟩, ⟨2, 0, tab + tab⟩), 2) := by
  simp [scanText, splitAtByte, Pos.zero, ScanCfg.ofId, kindOf, kWs, resOpt,
    Source.positionAfterCharsMatching, Source.withByteOffset, csub, positionAfterCharsMatching,
    f11_ws, f11Text, Source.sliceBytes]

private theorem f11_scan2 (tab c : Nat) : scanText (ScanCfg.ofId 0) f11Text 2 ⟨.lf, tab⟩ ⟨2, 0, c⟩
    = (some (⟨0, 0⟩, ⟨3, 0, c + 1⟩), 4) := by
  simp [scanText, f11Text, splitAtByte, ScanCfg.ofId, kindOf, kWs, resOpt, Pos.zero,
    Source.nextPosition, Source.withByteOffset, csub, nextPosition,
    f11_step, stepCh, Source.sliceBytes]

/-- The lexer sitting at the `a` of `"\t\ta"` (column `2·tab`), the `a` buffered. -/
def f11Lexer (tab : Nat) : Lexer Nat Tok :=
  { metrics := ⟨.lf, tab⟩, len := 3, scanner := 2, filter := some 1, recover := none,
    buffer := some ⟨4, ⟨2, 0, tab + tab⟩, ⟨3, 0, tab + tab + 1⟩, ⟨0, 0⟩⟩,
    parseStart := ⟨2, 0, tab + tab⟩, tokenStart := ⟨2, 0, tab + tab⟩, cursor := ⟨2, 0, tab + tab⟩ }

/-- `new(tab).with_filter(skip whitespace)` on `"\t\ta"`. -/
theorem f11_withFilter (tab : Nat) :
    (Lexer.new 1 ⟨.lf, tab⟩ 3 : Lexer Nat Tok).withFilter f11Env (some 1) = f11Lexer tab := by
  unfold f11Lexer
  simp only [Lexer.withFilter, Lexer.setFilter, Lexer.bufferNext, Lexer.new]
  simp
  rw [Lexer.bufferLoop]
  simp [f11Env, lexEnv, f11_scan0, Lexer.filtered, passesMask, classOf, Pos.zero]
  rw [Lexer.bufferLoop]
  simp [f11_scan2, Lexer.filtered, passesMask, classOf]

private theorem f11_wf : Text.WF f11Text := by
  intro c hc; simp [f11Text] at hc; rcases hc with rfl | rfl <;> decide

private theorem f11_measure2 (tab : Nat) : measureText f11Text ⟨.lf, tab⟩ 2 = ⟨2, 0, tab + tab⟩ := by
  have hw : Text.WF ([⟨9, 1, 0⟩, ⟨9, 1, 0⟩] : Text) := by
    intro c hc; simp at hc; subst hc; decide
  have h := MeasureCanon.measureText_cut ⟨.lf, tab⟩ [⟨9, 1, 0⟩, ⟨9, 1, 0⟩] [⟨97, 1, 1⟩] hw
  rw [show measureText f11Text ⟨.lf, tab⟩ 2 = _ from h]
  simp [Spec.canon, Spec.canonFrom, Spec.linesOf, breakAt, lbCodes, stripCodes, Spec.colWidth,
    bytes, Pos.zero]

private theorem f11_measure3 (tab : Nat) : measureText f11Text ⟨.lf, tab⟩ 3 = ⟨3, 0, tab + tab + 1⟩ := by
  have h := MeasureCanon.measureText_cut ⟨.lf, tab⟩ f11Text [] f11_wf
  rw [List.append_nil] at h
  rw [show measureText f11Text ⟨.lf, tab⟩ 3 = _ from h]
  simp [f11Text, Spec.canon, Spec.canonFrom, Spec.linesOf, breakAt, lbCodes, stripCodes,
    Spec.colWidth, bytes, Pos.zero]

/-- The former F11 witness, after the repair: the buffered token `a` and the cursor / token start /
parse start are the positions measured with tab width 8 (`a` at columns 16–17, canonical), the
reported `peek_token_span` is 16–17, and the builder order no longer matters on this input. -/
theorem C03_former_F11_witness :
    let lx := ((Lexer.new 1 ⟨.lf, 4⟩ 3 : Lexer Nat Tok).withFilter f11Env (some 1)).withTabWidth f11Env 8
    Lexer.ReachAll f11Env lx ∧
    lx.buffer = some ⟨4, ⟨2, 0, 16⟩, ⟨3, 0, 17⟩, ⟨0, 0⟩⟩ ∧
    lx.cursor = ⟨2, 0, 16⟩ ∧ lx.tokenStart = ⟨2, 0, 16⟩ ∧ lx.parseStart = ⟨2, 0, 16⟩ ∧
    lx.peekTokenSpan = some ⟨⟨2, 0, 16⟩, ⟨3, 0, 17⟩⟩ ∧
    Spec.isCanon ⟨.lf, 8⟩ f11Text ⟨2, 0, 16⟩ = true ∧ Spec.isCanon ⟨.lf, 8⟩ f11Text ⟨3, 0, 17⟩ = true ∧
    lx = ((Lexer.new 1 ⟨.lf, 4⟩ 3 : Lexer Nat Tok).withTabWidth f11Env 8).withFilter f11Env (some 1) := by
  intro lx
  have hlx : lx = f11Lexer 8 := by
    simp only [lx, f11_withFilter]
    simp [f11Lexer, Lexer.withTabWidth, Lexer.remeasureAll, Lexer.remeasure, f11Env, lexEnv,
      f11_measure2, f11_measure3]
  have hr : Lexer.ReachAll f11Env lx :=
    .mstep (.step (.new _ _ _) (.withFilter _ _)) (.withTabWidth 8 _)
  have hcanon := (C03_harness_lexer_canonical (ScanCfg.ofId 0) f11Text f11_wf lx hr).1
  refine ⟨hr, by rw [hlx]; rfl, by rw [hlx]; rfl, by rw [hlx]; rfl, by rw [hlx]; rfl, ?_, ?_, ?_, ?_⟩
  · rw [hlx]; simp [f11Lexer, Lexer.peekTokenSpan, Span.enclosing]
  · have := hcanon.2.2.1; rw [hlx] at this; exact this
  · have := (hcanon.2.2.2 _ (by rw [hlx]; rfl)).2; rw [hlx] at this; exact this
  · rw [LexInv.new_withTabWidth, hlx]
    exact (f11_withFilter 8).symm

end Tephra.Props
