/-
  C11 — delimited lists parse segment by segment, one error per bad segment.

  English.  `list`, `list_bounded`, `list_default`, `list_bounded_default`
  (tephra-combinator/src/list.rs; the variants `v = 0,1,2,3` of `G.list v id lo hi item
  sep abort`; Lean model: the `.list` case of `run`, `listLoop`, `stabValue`,
  `recoverDefault`, and the `.upTo` / `.stabilize` / `.maybe` cases, TephraModel/Run.lean)
  are compared with the specification `Spec.listSpec` (TephraModel/Spec/ListSpec.lean):
  cut the filtered tokens before the first abort token at each separator, drop one
  trailing empty segment, keep at most `hi` segments, judge each segment in isolation
  with the reference evaluator `Spec.peg` (`Spec.evalSegment`: the item must accept
  exactly the whole segment).  `listOracle` (TephraModel/Fam/Oracles.lean) is the same
  statement evaluated on the real code by the driver.

  Vocabulary.  `ScanOK`: scanner contract.  `PassOK`: the filter table is the harness
  table.  `AtIdx E m len f K j lx`: `lx` is a well-formed lexer with filter `f` whose
  remaining filtered stream is `K.drop j` (take `K = kept lx`, `j = 0` for "the stream of
  `lx`").  `segOf sep abort V` / `tailOf sep abort V`: the tokens of `V` before the first
  separator / abort token, and the rest.  `bnd sep abort k`: `k` is the separator kind or
  an abort kind.  `effLo v lo`, `effHi v hi`: the bounds in force (`list`, `list_default`
  ignore them).  `render v`: how an entry of `listSpec` shows in the result vector —
  `x` / `Val.some x` for a good segment, `Val.dflt` / `Val.none` for a placeholder,
  according to the variant.  `patOf sep abort`: the recovery closure the list installs;
  `specOf W id`: the closure registered under the list's closure identity `id` (fresh,
  or already this closure).  `logged W ctx e`: `W` with `ctx.apply e` appended to the sink
  log.  `valueRound` is `stabilize(recover_default(up_to(item', sep_or_abort), pat))`,
  one value of the loop.

  Hypotheses on the item (`ItemHyp text f a sep abort`), stated SEMANTICALLY on the
  reference evaluator:
  * `frag`: `a` is in the fragment `pegWithRep` on which `run` refines `Spec.peg`
    (`C07_partial`);
  * `nonnull`: whenever `peg … a s = ok v s'`, `s'.view` is strictly shorter than `s.view`;
  * `local_ok`, `local_fail`: LOCALITY.  For every state `s`, with `seg`/`tl` the split of
    `s.view` at the first separator / abort token: if `a` succeeds on `s` leaving `s'`, it
    succeeds with the same value on the isolated segment `⟨seg, eot, f⟩` leaving `t'`,
    `s'.view = t'.view ++ tl` and `t'.view` holds no separator / abort token; if it fails on
    `s` it fails on the isolated segment.  This contains separator/abort-freeness (chosen
    form: semantic; nothing from the first separator / abort token on is consumed) and is
    strictly stronger.  It is NECESSARY: `C11_needs_locality` refutes the statement with
    separator/abort-freeness alone (`C11_statement`), with the item
    `left(one(a), end_of_text)` on `a,a`; `C11_lookahead_witness` / `C11_rejected_witness`
    are the two other ways an item can look past its segment without consuming (negative
    lookahead through `implies(_, always-failing)`; `seq_count` in front of a byte the
    scanner rejects — `evalSegment` gives every segment the end-of-text terminator).
  * `C11_item_syntactic`: a DECIDABLE sufficient condition — `locG (sep :: abort) a`
    (the item is built from `empty one any any_index seq pred left right both center map
    discard either maybe require_if cond implies antecedent consequent cond_implies repeat
    intersperse intersperse_default` with `lo ≤ hi`, and no primitive can match a separator /
    abort kind; no `end_of_text`, `seq_count`, stop parser) and `nnG a` (conservative
    non-nullability).
  The specification judges with the fixed fuel 4000: `SpecFuelOK text f a K` says that on
  the segments of `K` this fuel decides like any other sufficient fuel
  (`C11_spec_fuel`: for items without a stop parser it is "4000 is enough").

  Proved (`TephraProofs/ListRefine.lean`, `ListWalk.lean`, `ListLocal.lean`,
  `PegFuel.lean`, `ListWitness.lean`):
  * `C11_value_step` — one round of the loop, with and without a sink (see the theorem).
  * `C11_list_partial` — the combinator against `listSpec`, with a sink (F21 excluded:
    `lastBadAtEnd = false`) and without.  "Partial" refers to the added locality
    hypothesis only; fuel: the statement is about every fuel with which the model does not
    run out (C02 provides one).  Entry lexer not recovering (`lx.recover = none`).
  * `C11_finding_F21` — the recorded finding, by evaluation; `C11_value_step` (third case)
    is its general form: a bad segment running to the end of the stream makes the round,
    hence the list, fail with `RecoverError` after logging the item's error.
  * `C11_no_panic` — the missing piece of C01 for `list*`: for every item of `pegWithRep`
    (no other hypothesis), bounds `lo ≤ hi`, any well-formed entry lexer — recovering or not
    — sink or not: no panic.  `C11_loop_no_panic` is the loop statement: entered with no
    value yet, or with a lexer that is not recovering, the `debug_assert` of `finish`
    (`vals.is_empty() || lexer.recover_state().is_none()`) cannot fire.
  * kept from the interim file: `C11_split_count`, `C11_model_hi_zero`.
  * THE LOCATION CLAUSE ("… exactly one reported error whose span lies between the separators (or
    list boundaries) delimiting that segment, inclusive"; `TephraProofs/ListErrLoc.lean`).
    `ErrWithin lo hi e`: every byte offset mentioned by the error — both ends of every span field
    (`es`, `ts`, …), every position field (`end`) — lies in `[lo, hi]`; this is what the driver's
    oracle checks with `errByteRange`.  `PosB lb len lx`: every position stored in the lexer lies in
    `[lb, len]` (a fresh lexer: `lb = 0`).
    - `C11_error_located` — one round: the error logged for a bad segment lies in
      `[lb, b.stop.byte]`, `b` the separator / abort token ending the segment (`[lb, len]` when the
      segment runs to the end of the text, the F21 case).
    - `C11_errors_located` — the combinator: the `k`-th logged error lies within the `k`-th entry of
      `badBounds` = the bounds of the bad segments exactly as `listOracleCore` computes them from
      `Fam.Oracles.segmentBounds` (lower bound: the START of the separator before the segment, or
      `lb` for the first; the proof gives the end of that separator).  `C11_errors_located_any`:
      the same without excluding F21 and without reference to the result.
    - ADDED HYPOTHESIS: `locG (sep :: abort) a` — the item is in the SYNTACTIC local fragment.  The
      semantic hypothesis `ItemHyp` is not enough: `C11_located_needs_syntactic` refutes the clause
      under `ItemHyp` alone (`C11_located_semantic_statement`) with the item
      `both(one(','), F)`, `F` an always-failing `pred`, on the text `,b;`: the item never succeeds
      (so it is semantically local), but it consumes the separator before failing, and the error
      reported for the first (empty) segment, bounded by bytes `0..1`, is `F`'s error on `b`
      (bytes `1..2`).  How it is proved for `locG`: an item none of whose primitives accepts a
      boundary kind never gets past the first boundary token `b` (`win_run`), so every span it
      reads off the lexer ends at or before `b.stop`; the `boundary` error of `up_to` carries the
      parse span (ending before `b`) and the cursor after `advance_to(b)` (= `b.stop`).

  Unbounded: any scanner satisfying the contract, text, metrics, filter, bounds, variant,
  separator, abort kinds, item of the stated classes, fuel, context chain, world.
-/
import TephraModel.Fam.Oracles
import TephraModel.Spec.ListSpec
import TephraProofs.ListRefine
import TephraProofs.ListLocal
import TephraProofs.ListWitness
import TephraProofs.ListErrLoc

namespace Tephra.Props
open Tephra Tephra.Fam.Oracles Tephra.Spec Tephra.ListRefine Tephra.ListLocal Tephra.ListWitness
open Tephra.BracketRefine Tephra.PegRefine Tephra.LexIter
open Tephra.RecoverFrame (specOf)
open Tephra.RecoverProof (logged)
open Tephra.Term (listItem listDv)
open Tephra.ListErrLoc

theorem C11_split_count (sep : Nat) (l : List (Spec.RawTok Tok)) :
    (splitAtSep sep l).length = (l.filter (·.tok.kind == sep)).length + 1 := by
  induction l with
  | nil => simp [splitAtSep]
  | cons r rest ih =>
    simp only [splitAtSep]
    cases hs : splitAtSep sep rest with
    | nil => simp [hs] at ih
    | cons seg segs =>
      simp only [hs] at ih
      by_cases hk : r.tok.kind == sep
      · simp [hk]; simp at ih; omega
      · simp [hk]; simp at ih; omega

theorem C11_model_hi_zero (R : RunEnv) (n v id lo : Nat) (a : G) (sep : Nat) (abort : List Nat) (lx : Lx)
    (ctx : Ctx) (W : World) (hv : v % 2 = 1) :
    run R (n + 1) (.list v id lo (some 0) a sep abort) lx ctx W = (.ok (.list []) lx, W) := by
  have : ¬ (v % 2 == 0) = true := by simp [hv]
  simp [run, this]

/-! ### 1. one round of the loop -/

/-- **C11, one round.**  Lexer `lx` at index `j` of the stream `K`, not recovering; `seg` =
the tokens from `j` to the next separator / abort token or the end.  With a sink the round
(`valueRound`) does one of:
(good) returns the item's value (wrapped in `Some` for `list`/`list_bounded`), registers the
  closure, logs nothing; (bad, followed) returns the placeholder and logs exactly one error;
  in both cases the returned lexer sits at the end of `seg` and is not recovering;
(F21) `seg` is bad and nothing follows it: `Err(RecoverError)` after logging the error;
or it runs out of fuel.  Without a sink: the value, or the item's / boundary error with
nothing logged. -/
theorem C11_value_step {R : RunEnv} {m : Metrics} {len : Nat} (ok : ScanOK R.E m len) (hp : PassOK R.E)
    {f : Option Nat} {a : G} {sep : Nat} {abort : List Nat} (H : ItemHyp R.text f a sep abort)
    {K : List (RawTok Tok)} (hF : SpecFuelOK R.text f a K) {j : Nat} {lx : Lx}
    (hat : AtIdx R.E m len f K j lx) (hrec : lx.recover = none) (v n id : Nat) (ctx : Ctx) (W : World)
    (hW : specOf W id = none ∨ specOf W id = some (patOf sep abort)) :
    (ctx.sink = true →
      (∃ x lx', valueRound R n v id a sep abort lx ctx W = (.ok (wrapV v x) lx', W.register id (patOf sep abort)) ∧
          evalSegment R.text f a (segOf sep abort (K.drop j)) = some x ∧
          AtIdx R.E m len f K (j + (segOf sep abort (K.drop j)).length) lx' ∧ lx'.recover = none) ∨
      (evalSegment R.text f a (segOf sep abort (K.drop j)) = none ∧ tailOf sep abort (K.drop j) ≠ [] ∧
        ∃ e lx', valueRound R n v id a sep abort lx ctx W =
            (.ok (listDv v) lx', logged (W.register id (patOf sep abort)) ctx e) ∧
          AtIdx R.E m len f K (j + (segOf sep abort (K.drop j)).length) lx' ∧ lx'.recover = none) ∨
      (evalSegment R.text f a (segOf sep abort (K.drop j)) = none ∧ tailOf sep abort (K.drop j) = [] ∧
        ∃ e, valueRound R n v id a sep abort lx ctx W =
            (.err ⟨[], .recover⟩, logged (W.register id (patOf sep abort)) ctx e)) ∨
      (valueRound R n v id a sep abort lx ctx W).1 = .fuel) ∧
    (ctx.sink = false →
      (∃ x lx', valueRound R n v id a sep abort lx ctx W = (.ok (wrapV v x) lx', W.register id (patOf sep abort)) ∧
          evalSegment R.text f a (segOf sep abort (K.drop j)) = some x ∧
          AtIdx R.E m len f K (j + (segOf sep abort (K.drop j)).length) lx' ∧ lx'.recover = none) ∨
      (evalSegment R.text f a (segOf sep abort (K.drop j)) = none ∧
        ∃ e, valueRound R n v id a sep abort lx ctx W = (.err e, W.register id (patOf sep abort))) ∨
      (valueRound R n v id a sep abort lx ctx W).1 = .fuel) :=
  ⟨fun hs => value_step_sink ok hp H hF hat hrec v n id ctx W hW hs,
   fun hs => value_step_nosink ok hp H hF hat hrec v n id ctx W hs⟩

/-- `valueRound` is literally the value step of `listLoop`. -/
theorem C11_valueRound_def (R : RunEnv) (n v id : Nat) (a : G) (sep : Nat) (abort : List Nat) (lx : Lx) (ctx : Ctx)
    (W : World) :
    valueRound R n v id a sep abort lx ctx W =
      stabValue R n (if v < 2 then Val.none else Val.dflt) id (.sepOrAbort sep abort)
        (.upTo (if v < 2 then G.someOf a else a) (sep :: abort)) lx ctx
        (recoverDefault R n (if v < 2 then Val.none else Val.dflt) id (.sepOrAbort sep abort)
          (.upTo (if v < 2 then G.someOf a else a) (sep :: abort)) lx ctx W).1
        (recoverDefault R n (if v < 2 then Val.none else Val.dflt) id (.sepOrAbort sep abort)
          (.upTo (if v < 2 then G.someOf a else a) (sep :: abort)) lx ctx W).2 := rfl

/-! ### 2. the combinator against `listSpec` -/

/-- FULL statement as first formulated (kept as a def; REFUTED by `C11_needs_locality`): the
item is in the fragment, non-nullable and separator/abort-free — without locality. -/
structure ItemHyp0 (text : Text) (f : Option Nat) (a : G) (sep : Nat) (abort : List Nat) : Prop where
  frag : pegWithRep a = true
  nonnull : ∀ k (s : PState) v s', s.filter = f → peg text k a s = .ok v s' → s'.view.length < s.view.length
  /-- nothing from the first separator / abort token on is consumed -/
  sepFree : ∀ k (s : PState) v s', s.filter = f → peg text k a s = .ok v s' →
    ∃ u, s'.view = u ++ tailOf sep abort s.view

def C11_statement : Prop :=
  ∀ (R : RunEnv) (m : Metrics) (len : Nat), ScanOK R.E m len → PassOK R.E →
  ∀ (f : Option Nat) (a : G) (sep : Nat) (abort : List Nat), ItemHyp0 R.text f a sep abort →
  ∀ (K : List (RawTok Tok)), SpecFuelOK R.text f a K →
  ∀ (n v id lo : Nat) (hi : Option Nat) (j : Nat) (lx : Lx) (ctx : Ctx) (W : World),
    effHi v hi ≠ some 0 → hiBelow (effHi v hi) (effLo v lo) = false →
    AtIdx R.E m len f K j lx → lx.recover = none →
    (specOf W id = none ∨ specOf W id = some (patOf sep abort)) → ctx.sink = true →
    (run R (n + 1) (.list v id lo hi a sep abort) lx ctx W).1 ≠ .fuel →
    (listSpec R.text f (effHi v hi) a sep abort (K.drop j)).lastBadAtEnd = false →
    SinkConcl R m len f K a sep abort n v id lo hi j lx ctx W

/-- The locality hypothesis contains the hypotheses of `C11_statement`. -/
theorem C11_itemHyp_stronger {text : Text} {f : Option Nat} {a : G} {sep : Nat} {abort : List Nat}
    (H : ItemHyp text f a sep abort) : ItemHyp0 text f a sep abort := by
  refine ⟨H.frag, H.nonnull, ?_⟩
  intro k s v s' hf h
  obtain ⟨t', _, hview, _⟩ := H.local_ok k s v s' hf h
  exact ⟨t'.view, hview⟩

/-- **C11, the combinator** (top-level `list*` on a lexer at index `j` of `K`, not recovering,
closure identity fresh or already the list's, bounds `lo ≤ hi`, upper bound not zero, fuel
with which the model does not run out).
With a sink, when `listSpec` does not flag F21: the list succeeds with the rendering of the
entries of `listSpec`; the returned lexer continues `consumed` tokens further and is not
recovering; the sink log has grown by exactly `nbad` errors followed by the count error when
there are fewer than `lo` entries (`SinkConcl`).
Without a sink: when all segments are good and there are at least `lo` of them, the same
result with nothing logged; otherwise an error with nothing logged, which is the count error
when all segments are good. -/
theorem C11_list_partial {R : RunEnv} {m : Metrics} {len : Nat} (ok : ScanOK R.E m len) (hp : PassOK R.E)
    {f : Option Nat} {a : G} {sep : Nat} {abort : List Nat} (H : ItemHyp R.text f a sep abort)
    {K : List (RawTok Tok)} (hF : SpecFuelOK R.text f a K)
    (n v id lo : Nat) (hi : Option Nat) {j : Nat} {lx : Lx} (ctx : Ctx) (W : World)
    (hhi : effHi v hi ≠ some 0) (hlo : hiBelow (effHi v hi) (effLo v lo) = false)
    (hat : AtIdx R.E m len f K j lx) (hrec : lx.recover = none)
    (hW : specOf W id = none ∨ specOf W id = some (patOf sep abort))
    (hne : (run R (n + 1) (.list v id lo hi a sep abort) lx ctx W).1 ≠ .fuel) :
    (ctx.sink = true → (listSpec R.text f (effHi v hi) a sep abort (K.drop j)).lastBadAtEnd = false →
      SinkConcl R m len f K a sep abort n v id lo hi j lx ctx W) ∧
    (ctx.sink = false →
      ((listSpec R.text f (effHi v hi) a sep abort (K.drop j)).nbad = 0 ∧
        effLo v lo ≤ (listSpec R.text f (effHi v hi) a sep abort (K.drop j)).entries.length →
        ∃ lx' W', run R (n + 1) (.list v id lo hi a sep abort) lx ctx W =
            (.ok (.list ((listSpec R.text f (effHi v hi) a sep abort (K.drop j)).entries.map (render v))) lx', W') ∧
          AtIdx R.E m len f K (j + (listSpec R.text f (effHi v hi) a sep abort (K.drop j)).consumed) lx' ∧
          lx'.recover = none ∧ W'.log = W.log) ∧
      (¬ ((listSpec R.text f (effHi v hi) a sep abort (K.drop j)).nbad = 0 ∧
        effLo v lo ≤ (listSpec R.text f (effHi v hi) a sep abort (K.drop j)).entries.length) →
        ∃ e W', run R (n + 1) (.list v id lo hi a sep abort) lx ctx W = (.err e, W') ∧ W'.log = W.log ∧
          ((listSpec R.text f (effHi v hi) a sep abort (K.drop j)).nbad = 0 →
            ∃ sp, e = mkErr (.count sp (listSpec R.text f (effHi v hi) a sep abort (K.drop j)).entries.length
              (effLo v lo) (effHi v hi))))) :=
  ⟨fun hs h21 => list_sink ok hp H hF n v id lo hi ctx W hhi hlo hat hrec hW hs hne h21,
   fun hs => list_nosink ok hp H hF n v id lo hi ctx W hhi hlo hat hrec hW hs hne⟩

/-- what `SinkConcl` abbreviates -/
theorem C11_sinkConcl_def (R : RunEnv) (m : Metrics) (len : Nat) (f : Option Nat) (K : List (RawTok Tok)) (a : G)
    (sep : Nat) (abort : List Nat) (n v id lo : Nat) (hi : Option Nat) (j : Nat) (lx : Lx) (ctx : Ctx) (W : World) :
    SinkConcl R m len f K a sep abort n v id lo hi j lx ctx W ↔
    ∃ lx' W' errs,
      run R (n + 1) (.list v id lo hi a sep abort) lx ctx W =
        (.ok (.list ((listSpec R.text f (effHi v hi) a sep abort (K.drop j)).entries.map (render v))) lx', W') ∧
      AtIdx R.E m len f K (j + (listSpec R.text f (effHi v hi) a sep abort (K.drop j)).consumed) lx' ∧
      lx'.recover = none ∧
      errs.length = (listSpec R.text f (effHi v hi) a sep abort (K.drop j)).nbad ∧
      W'.log = W.log ++ errs ++
        (if (listSpec R.text f (effHi v hi) a sep abort (K.drop j)).entries.length < effLo v lo then
          [ctx.apply (mkErr (.count lx'.parseSpan
            (listSpec R.text f (effHi v hi) a sep abort (K.drop j)).entries.length (effLo v lo) (effHi v hi)))]
         else []) := Iff.rfl

/-- the rendering of entries, spelled out -/
theorem C11_render_def (v : Nat) (x : Val) :
    render v (some x) = (if v < 2 then Val.some x else x) ∧ render v none = (if v < 2 then Val.none else Val.dflt) :=
  ⟨rfl, rfl⟩

/-! ### the hypotheses: syntactic sufficient conditions -/

/-- **Decidable sufficient condition for `ItemHyp`.** -/
theorem C11_item_syntactic (text : Text) (f : Option Nat) (a : G) (sep : Nat) (abort : List Nat)
    (hloc : locG (sep :: abort) a = true) (hnn : nnG a = true) : ItemHyp text f a sep abort :=
  itemHyp_of_syntax text f a sep abort hloc hnn

/-- the fragment alone gives locality; non-nullability may also be supplied semantically -/
theorem C11_item_local (text : Text) (f : Option Nat) (a : G) (sep : Nat) (abort : List Nat)
    (hloc : locG (sep :: abort) a = true)
    (hnn : ∀ k (s : PState) v s', s.filter = f → peg text k a s = .ok v s' → s'.view.length < s.view.length) :
    ItemHyp text f a sep abort :=
  itemHyp_of_locG text f a sep abort hloc hnn

/-- For items without a stop parser the fuel hypothesis is "4000 is enough on every segment". -/
theorem C11_spec_fuel {text : Text} {f : Option Nat} {a : G} {K : List (RawTok Tok)}
    (hu : PegFuel.noUntil a = true)
    (h : ∀ seg, seg <:+: K → peg text 4000 a ⟨seg, .eot, f⟩ ≠ .fuel) : SpecFuelOK text f a K :=
  specFuelOK_of_ne_fuel hu h

/-- the reference evaluator's fuel is not a bound on behaviour (no stop parsers) -/
theorem C11_peg_fuel_mono (text : Text) {n m : Nat} (hm : n ≤ m) (g : G) (s : PState)
    (hg : PegFuel.noUntil g = true) (h : peg text n g s ≠ .fuel) : peg text m g s = peg text n g s :=
  PegFuel.peg_fuel_mono text hm g s hg h

theorem C11_locG_noUntil (bs : List Nat) (g : G) (h : locG bs g = true) : PegFuel.noUntil g = true :=
  locG_noUntil bs g h

/-! ### locality is necessary -/

/-- the item `left(one(a), end_of_text)` satisfies the hypotheses of `C11_statement` -/
theorem C11_endOfText_item (text : Text) (f : Option Nat) : ItemHyp0 text f EndOfText.a 4 [5] := by
  refine ⟨rfl, ?_, ?_⟩
  · intro k s v s' _ h
    obtain ⟨r, hp, _⟩ := EndOfText.a_shape text k s v s' h
    rw [ListRefine.view_of_pop_some hp]; simp
  · intro k s v s' _ h
    obtain ⟨r, hp, hk⟩ := EndOfText.a_shape text k s v s' h
    refine ⟨segOf 4 [5] s'.view, ?_⟩
    rw [ListRefine.view_of_pop_some hp]
    have : tailOf 4 [5] (r :: s'.view) = tailOf 4 [5] s'.view := by
      unfold tailOf
      rw [List.dropWhile_cons, hk]
      rfl
    rw [this]
    exact (seg_tail 4 [5] s'.view).symm

/-- **Locality is necessary.**  `C11_statement` (fragment + non-nullable + separator/abort-free,
no locality) is false: for the item `left(one(a), end_of_text)` on the text `a,a` with a sink,
the model yields `[placeholder, a]` and reports one error (the `,` is not the end of the text),
while `listSpec` judges both isolated segments good and expects no error.  Not an F21 case. -/
theorem C11_needs_locality : ¬ C11_statement := by
  intro h
  have hne : (run EndOfText.R (9 + 1) (.list 3 1 0 none EndOfText.a 4 [5]) EndOfText.lx sinkCtx World.init).1 ≠ .fuel := by
    intro e
    have := EndOfText.run_eq.1
    rw [show run EndOfText.R 10 EndOfText.g EndOfText.lx sinkCtx World.init =
      run EndOfText.R (9 + 1) (.list 3 1 0 none EndOfText.a 4 [5]) EndOfText.lx sinkCtx World.init from rfl, e] at this
    cases this
  obtain ⟨lx', W', errs, h1, _, _, h4, h5⟩ := h EndOfText.R m0 3 (tabM_ok _ _ _ (Nat.le_refl _)) (tabM_pass _) none
    EndOfText.a 4 [5] (C11_endOfText_item _ _) EndOfText.K (EndOfText.a_fuelOK _) 9 3 1 0 none 0 EndOfText.lx sinkCtx
    World.init (by decide) rfl (atIdx_new _ _ _ EndOfText.kept_eq) rfl (Or.inl rfl) rfl hne EndOfText.spec_eq.2.2
  have hspec := EndOfText.spec_eq
  have e1 : effHi 3 none = none := rfl
  have e2 : EndOfText.K.drop 0 = EndOfText.K := rfl
  rw [e1, e2] at h4 h5
  rw [hspec.1] at h4
  rw [hspec.2.1] at h5
  have herrs : errs = [] := List.eq_nil_of_length_eq_zero h4
  subst herrs
  have hlen : W'.log.length = 0 := by
    rw [h5]
    simp [World.init, effLo]
  have hW' : W' = (run EndOfText.R 10 EndOfText.g EndOfText.lx sinkCtx World.init).2 := by
    rw [show run EndOfText.R 10 EndOfText.g EndOfText.lx sinkCtx World.init =
      run EndOfText.R (9 + 1) (.list 3 1 0 none EndOfText.a 4 [5]) EndOfText.lx sinkCtx World.init from rfl, h1]
  rw [hW', EndOfText.run_eq.2] at hlen
  cases hlen

/-- Negative lookahead without `end_of_text`: `F := pred(a ∧ ¬a)` always fails, the item
`left(one(a), implies(one(','), F))` never consumes a separator, and fails exactly in front of
one.  On `a,a`: model `[placeholder, a]` + one error; `listSpec`: two good entries. -/
theorem C11_lookahead_witness :
    okDflt (run EndOfText.R 12 Lookahead.g EndOfText.lx sinkCtx World.init).1 = some [true, false] ∧
    (run EndOfText.R 12 Lookahead.g EndOfText.lx sinkCtx World.init).2.log.length = 1 ∧
    pegWithRep Lookahead.a = true ∧
    (listSpec EndOfText.R.text none none Lookahead.a 4 [5] EndOfText.K).nbad = 0 ∧
    (listSpec EndOfText.R.text none none Lookahead.a 4 [5] EndOfText.K).entries.length = 2 ∧
    (listSpec EndOfText.R.text none none Lookahead.a 4 [5] EndOfText.K).lastBadAtEnd = false :=
  ⟨Lookahead.run_eq.1, Lookahead.run_eq.2, rfl, Lookahead.spec_eq.1, Lookahead.spec_eq.2.1, Lookahead.spec_eq.2.2⟩

/-- `seq_count` in front of a byte the scanner rejects (text `a#`): the item
`right(one(a), seq_count([b]))` fails in the model (`UnrecognizedTokenError`), the segment is bad
and runs to the end: `Err(RecoverError)` — but `evalSegment` ends every isolated segment with
end-of-text, so `listSpec` has one good entry and does not flag F21. -/
theorem C11_rejected_witness :
    AtIdx Rejected.R.E m0 2 none Rejected.K 0 Rejected.lx ∧
    isRecoverErr (run Rejected.R 12 Rejected.g Rejected.lx sinkCtx World.init).1 = true ∧
    (run Rejected.R 12 Rejected.g Rejected.lx sinkCtx World.init).2.log.length = 1 ∧
    pegWithRep Rejected.a = true ∧
    (listSpec Rejected.R.text none none Rejected.a 4 [5] Rejected.K).nbad = 0 ∧
    (listSpec Rejected.R.text none none Rejected.a 4 [5] Rejected.K).entries.length = 1 ∧
    (listSpec Rejected.R.text none none Rejected.a 4 [5] Rejected.K).lastBadAtEnd = false :=
  ⟨atIdx_new _ _ _ Rejected.kept_eq, Rejected.run_eq.1, Rejected.run_eq.2, rfl, Rejected.spec_eq.1,
    Rejected.spec_eq.2.1, Rejected.spec_eq.2.2⟩

/-! ### 3. finding F21 -/

/-- **F21**, by evaluation.  Text ` ` (one whitespace token, no filter),
`list_bounded(1, Some(1), one(a), ',', [';'])`, sink installed: the model returns
`Err(RecoverError)` (having logged the item's error), although `listSpec` has exactly one
entry — a bad one — consumes the token, and flags the case (`lastBadAtEnd`). -/
theorem C11_finding_F21 :
    AtIdx F21.R.E m0 1 none F21.K 0 F21.lx ∧
    isRecoverErr (run F21.R 8 F21.g F21.lx sinkCtx World.init).1 = true ∧
    (run F21.R 8 F21.g F21.lx sinkCtx World.init).2.log.length = 1 ∧
    (listSpec F21.R.text none (some 1) (.one 0) 4 [5] F21.K).entries.map Option.isNone = [true] ∧
    (listSpec F21.R.text none (some 1) (.one 0) 4 [5] F21.K).consumed = 1 ∧
    (listSpec F21.R.text none (some 1) (.one 0) 4 [5] F21.K).lastBadAtEnd = true :=
  ⟨atIdx_new _ _ _ F21.kept_eq, F21.run_eq.1, F21.run_eq.2, F21.spec_eq.1, F21.spec_eq.2.2, F21.spec_eq.2.1⟩

/-! ### 4. no panic -/

/-- **C11 / C01 for `list*`: the combinator never panics.**  Any scanner satisfying the contract,
any well-formed entry lexer (recovering from an earlier error or not), any context (sink or
not), any world in which the closure identity is fresh or already the list's; item in the
fragment `pegWithRep` (no other hypothesis); bounds `lo ≤ hi` (otherwise the Rust panics on
purpose: "list with high < low"). -/
theorem C11_no_panic {R : RunEnv} {m : Metrics} {len : Nat} (ok : ScanOK R.E m len) (hp : PassOK R.E)
    {f : Option Nat} {a : G} (sep : Nat) (abort : List Nat) (hfrag : pegWithRep a = true)
    (n v id lo : Nat) (hi : Option Nat) {lx : Lx} (ctx : Ctx) (W : World)
    (hlo : hiBelow (effHi v hi) (effLo v lo) = false) (inv : Inv R.E m len f lx)
    (hW : specOf W id = none ∨ specOf W id = some (patOf sep abort)) :
    (run R n (.list v id lo hi a sep abort) lx ctx W).1 ≠ .panic :=
  list_no_panic_frag ok hp sep abort hfrag n v id lo hi ctx W hlo inv hW

/-- The loop statement behind it: `listLoop` entered with no value taken yet (the lexer may then
still be recovering), or with a lexer that is not recovering, never panics — so the
`debug_assert!(vals.is_empty() || lexer.recover_state().is_none())` of `finish` holds on every
path (it is the only panic site of the loop besides the item's own). -/
theorem C11_loop_no_panic {R : RunEnv} {m : Metrics} {len : Nat} (ok : ScanOK R.E m len) (hp : PassOK R.E)
    {f : Option Nat} {a : G} (sep : Nat) (abort : List Nat) (hfrag : pegWithRep a = true)
    (v id lo : Nat) (hi : Option Nat) (ctx : Ctx) (n : Nat) (lexer : Lx) (vals : List Val) (W : World)
    (inv : Inv R.E m len f lexer) (h : vals = [] ∨ lexer.recover = none)
    (hW : specOf W id = none ∨ specOf W id = some (patOf sep abort)) :
    (listLoop R n v id lo hi a sep abort lexer ctx W vals).1 ≠ .panic :=
  loop_np ok hp sep abort hfrag v id lo hi ctx n lexer vals W inv h hW

/-- the assertion is not vacuous: `finish` does panic on a recovering lexer with a value -/
theorem C11_finish_assert (ctx : Ctx) (lo : Nat) (hi : Option Nat) (lx : Lx) (x : Val) (vals : List Val) (W : World)
    (id : Nat) (h : lx.recover = some id) :
    Term.listFinish ctx lo hi lx (x :: vals) W = (.panic, W) := by
  simp [Term.listFinish, h]

/-! ### 5. the location of the reported errors -/

/-- what `ErrWithin` says, constructor by constructor of the error -/
theorem C11_errWithin_def (lo hi : Nat) (e : PErr) :
    ErrWithin lo hi e ↔
      ErrQ (fun x => (lo ≤ x.s.byte ∧ x.s.byte ≤ hi) ∧ (lo ≤ x.e.byte ∧ x.e.byte ≤ hi))
        (fun p => lo ≤ p.byte ∧ p.byte ≤ hi) e.body := Iff.rfl

/-- a fresh lexer stores only the position zero -/
theorem C11_posB_new (s0 : Nat) (m : Metrics) (len : Nat) : PosB 0 len (Lexer.new s0 m len) :=
  ⟨⟨Nat.zero_le _, Nat.zero_le _⟩, ⟨Nat.zero_le _, Nat.zero_le _⟩, ⟨Nat.zero_le _, Nat.zero_le _⟩, fun _ h => nomatch h⟩

/-- **C11, the location clause, one round.**  Hypotheses of `C11_value_step` with a sink, and: the
item is in the syntactic fragment `locG (sep :: abort)`; every position stored in the entry lexer
lies in `[lb, len]` (bytes).  Then, as in `C11_value_step`, and IN ADDITION: the single error `e`
appended to the log for a bad segment satisfies `ErrWithin lb b.stop.byte e`, where `b` is the
separator / abort token that ends the segment (the head of `tailOf … (K.drop j)`, i.e.
`K[j + seg.length]`); when the bad segment runs to the end of the stream (F21) it satisfies
`ErrWithin lb len e`. -/
theorem C11_error_located {R : RunEnv} {m : Metrics} {len : Nat} (ok : ScanOK R.E m len) (hp : PassOK R.E)
    {f : Option Nat} {a : G} {sep : Nat} {abort : List Nat} (H : ItemHyp R.text f a sep abort)
    (hloc : locG (sep :: abort) a = true)
    {K : List (RawTok Tok)} (hF : SpecFuelOK R.text f a K) {j : Nat} {lx : Lx}
    (hat : AtIdx R.E m len f K j lx) (hrec : lx.recover = none) {lb : Nat} (hpos : PosB lb len lx)
    (v n id : Nat) (ctx : Ctx) (W : World)
    (hW : specOf W id = none ∨ specOf W id = some (patOf sep abort)) (hsink : ctx.sink = true) :
    (∃ x lx', valueRound R n v id a sep abort lx ctx W = (.ok (wrapV v x) lx', W.register id (patOf sep abort)) ∧
        evalSegment R.text f a (segOf sep abort (K.drop j)) = some x ∧
        AtIdx R.E m len f K (j + (segOf sep abort (K.drop j)).length) lx' ∧ lx'.recover = none) ∨
    (evalSegment R.text f a (segOf sep abort (K.drop j)) = none ∧
      ∃ b rest e lx', tailOf sep abort (K.drop j) = b :: rest ∧ valueRound R n v id a sep abort lx ctx W =
          (.ok (listDv v) lx', logged (W.register id (patOf sep abort)) ctx e) ∧ ErrWithin lb b.stop.byte e ∧
        AtIdx R.E m len f K (j + (segOf sep abort (K.drop j)).length) lx' ∧ lx'.recover = none) ∨
    (evalSegment R.text f a (segOf sep abort (K.drop j)) = none ∧ tailOf sep abort (K.drop j) = [] ∧
      ∃ e, valueRound R n v id a sep abort lx ctx W =
          (.err ⟨[], .recover⟩, logged (W.register id (patOf sep abort)) ctx e) ∧ ErrWithin lb len e) ∨
    (valueRound R n v id a sep abort lx ctx W).1 = .fuel :=
  round_located ok hp H hloc hF hat hrec hpos v n id ctx W hW hsink

/-- the boundary token of the round is the token at index `j + seg.length` of `K` -/
theorem C11_boundary_index (sep : Nat) (abort : List Nat) (K : List (RawTok Tok)) (j : Nat) {b : RawTok Tok}
    {rest : List (RawTok Tok)} (h : tailOf sep abort (K.drop j) = b :: rest) :
    K[j + (segOf sep abort (K.drop j)).length]? = some b ∧ bnd sep abort b.tok.kind = true := by
  have := ListRefine.drop_seg sep abort K j
  rw [h] at this
  exact ⟨(drop_cons_inv this).2.1, tail_head h⟩

/-- the error of the item itself (`up_to(item, sep_or_abort)` run on the round's lexer), without
the list around it -/
theorem C11_item_error_located {R : RunEnv} {m : Metrics} {len : Nat} (ok : ScanOK R.E m len) (hp : PassOK R.E)
    {f : Option Nat} {a : G} {sep : Nat} {abort : List Nat} (hloc : locG (sep :: abort) a = true)
    {K : List (RawTok Tok)} {j : Nat} {lx : Lx} (hat : AtIdx R.E m len f K j lx) {lb : Nat} (hpos : PosB lb len lx)
    (v n : Nat) (ctx : Ctx) (W : World) (e : PErr)
    (he : (run R n (listItem v a sep abort) lx ctx W).1 = .err e) :
    (∀ b rest, tailOf sep abort (K.drop j) = b :: rest → ErrWithin lb b.stop.byte e) ∧
    (tailOf sep abort (K.drop j) = [] → ErrWithin lb len e) :=
  item_err_located ok hp hloc hat hpos v n ctx W e he

/-- `badBounds` is the oracle's computation (`listOracleCore`: `bounds`, `badBounds`) -/
theorem C11_badBounds_def (entries : List (Option Val)) (sep : Nat) (abort : List Nat) (startByte len : Nat)
    (view : List (RawTok Tok)) :
    badBounds entries sep abort startByte len view =
      ((entries.zip (segmentBounds sep abort startByte len view)).filter (·.1.isNone)).map (·.2) := rfl

/-- **C11, the location clause, the combinator — any outcome** (F21 included).  Top-level `list*`,
sink installed, entry lexer at index `j` of `K`, not recovering, stored positions in `[lb, len]`,
item in `locG (sep :: abort)`, model not out of fuel: the sink log has grown by `errs`, then at most
one more error (the count error); `errs` has one error per bad entry of `listSpec`, and the `k`-th
lies within the `k`-th of the oracle's bounds of the bad segments. -/
theorem C11_errors_located_any {R : RunEnv} {m : Metrics} {len : Nat} (ok : ScanOK R.E m len) (hp : PassOK R.E)
    {f : Option Nat} {a : G} {sep : Nat} {abort : List Nat} (H : ItemHyp R.text f a sep abort)
    (hloc : locG (sep :: abort) a = true)
    {K : List (RawTok Tok)} (hF : SpecFuelOK R.text f a K)
    (n v id lo : Nat) (hi : Option Nat) {j : Nat} {lx : Lx} (ctx : Ctx) (W : World)
    (hhi : effHi v hi ≠ some 0) (hlo : hiBelow (effHi v hi) (effLo v lo) = false)
    (hat : AtIdx R.E m len f K j lx) (hrec : lx.recover = none) {lb : Nat} (hpos : PosB lb len lx)
    (hW : specOf W id = none ∨ specOf W id = some (patOf sep abort)) (hsink : ctx.sink = true)
    (hne : (run R (n + 1) (.list v id lo hi a sep abort) lx ctx W).1 ≠ .fuel) :
    ∃ errs tl, (run R (n + 1) (.list v id lo hi a sep abort) lx ctx W).2.log = W.log ++ errs ++ tl ∧
      tl.length ≤ 1 ∧ errs.length = (listSpec R.text f (effHi v hi) a sep abort (K.drop j)).nbad ∧
      ∀ (k : Nat) (b : Nat × Nat),
        (badBounds (listSpec R.text f (effHi v hi) a sep abort (K.drop j)).entries sep abort lb len (K.drop j))[k]? =
          some b → ∃ e, errs[k]? = some e ∧ ErrWithin b.1 b.2 e :=
  list_located ok hp H hloc hF n v id lo hi ctx W hhi hlo hat hrec hpos hW hsink hne

/-- **C11, the location clause, the combinator.**  Hypotheses of `C11_list_partial` (sink, F21
excluded), item in `locG (sep :: abort)`, stored positions of the entry lexer in `[lb, len]`: the
conclusion of `C11_list_partial` (`SinkConcl`, spelled out), and the `k`-th of the `nbad` logged
errors lies within the `k`-th of the oracle's bounds of the bad segments — from the start of the
separator before the segment (`lb` for the first) to the end of the separator / abort token after
it (`len` at the end of the text), inclusive. -/
theorem C11_errors_located {R : RunEnv} {m : Metrics} {len : Nat} (ok : ScanOK R.E m len) (hp : PassOK R.E)
    {f : Option Nat} {a : G} {sep : Nat} {abort : List Nat} (H : ItemHyp R.text f a sep abort)
    (hloc : locG (sep :: abort) a = true)
    {K : List (RawTok Tok)} (hF : SpecFuelOK R.text f a K)
    (n v id lo : Nat) (hi : Option Nat) {j : Nat} {lx : Lx} (ctx : Ctx) (W : World)
    (hhi : effHi v hi ≠ some 0) (hlo : hiBelow (effHi v hi) (effLo v lo) = false)
    (hat : AtIdx R.E m len f K j lx) (hrec : lx.recover = none) {lb : Nat} (hpos : PosB lb len lx)
    (hW : specOf W id = none ∨ specOf W id = some (patOf sep abort)) (hsink : ctx.sink = true)
    (hne : (run R (n + 1) (.list v id lo hi a sep abort) lx ctx W).1 ≠ .fuel)
    (hF21 : (listSpec R.text f (effHi v hi) a sep abort (K.drop j)).lastBadAtEnd = false) :
    ∃ lx' W' errs,
      run R (n + 1) (.list v id lo hi a sep abort) lx ctx W =
        (.ok (.list ((listSpec R.text f (effHi v hi) a sep abort (K.drop j)).entries.map (render v))) lx', W') ∧
      AtIdx R.E m len f K (j + (listSpec R.text f (effHi v hi) a sep abort (K.drop j)).consumed) lx' ∧
      lx'.recover = none ∧
      errs.length = (listSpec R.text f (effHi v hi) a sep abort (K.drop j)).nbad ∧
      W'.log = W.log ++ errs ++
        (if (listSpec R.text f (effHi v hi) a sep abort (K.drop j)).entries.length < effLo v lo then
          [ctx.apply (mkErr (.count lx'.parseSpan
            (listSpec R.text f (effHi v hi) a sep abort (K.drop j)).entries.length (effLo v lo) (effHi v hi)))]
         else []) ∧
      ∀ (k : Nat) (b : Nat × Nat),
        (badBounds (listSpec R.text f (effHi v hi) a sep abort (K.drop j)).entries sep abort lb len (K.drop j))[k]? =
          some b → ∃ e, errs[k]? = some e ∧ ErrWithin b.1 b.2 e := by
  obtain ⟨lx', W', errs, h1, h2, h3, h4, h5⟩ :=
    (C11_sinkConcl_def R m len f K a sep abort n v id lo hi j lx ctx W).mp
      (list_sink ok hp H hF n v id lo hi ctx W hhi hlo hat hrec hW hsink hne hF21)
  obtain ⟨errs2, tl, g1, g2, g3, g4⟩ :=
    list_located ok hp H hloc hF n v id lo hi ctx W hhi hlo hat hrec hpos hW hsink hne
  rw [h1] at g1
  simp only at g1
  rw [h5, List.append_assoc, List.append_assoc] at g1
  have hx := List.append_cancel_left g1
  have he : errs = errs2 := (List.append_inj hx (by rw [h4, g3])).1
  subst he
  exact ⟨lx', W', errs, h1, h2, h3, h4, h5, g4⟩

/-- The location clause as one would first state it, with the SEMANTIC locality hypothesis
`ItemHyp` only (kept as a def; REFUTED by `C11_located_needs_syntactic`): in a round whose segment
is followed by a boundary token `b`, an error appended to the log lies in `[lb, b.stop.byte]`. -/
def C11_located_semantic_statement : Prop :=
  ∀ (R : RunEnv) (m : Metrics) (len : Nat), ScanOK R.E m len → PassOK R.E →
  ∀ (f : Option Nat) (a : G) (sep : Nat) (abort : List Nat), ItemHyp R.text f a sep abort →
  ∀ (K : List (RawTok Tok)), SpecFuelOK R.text f a K →
  ∀ (j : Nat) (lx : Lx), AtIdx R.E m len f K j lx → lx.recover = none →
  ∀ (lb : Nat), PosB lb len lx →
  ∀ (v n id : Nat) (ctx : Ctx) (W : World),
    (specOf W id = none ∨ specOf W id = some (patOf sep abort)) → ctx.sink = true →
  ∀ (b : RawTok Tok) (rest : List (RawTok Tok)), tailOf sep abort (K.drop j) = b :: rest →
  ∀ (e : PErr), (valueRound R n v id a sep abort lx ctx W).2.log = W.log ++ [e] → ErrWithin lb b.stop.byte e

/-- **The semantic locality hypothesis does not locate the error.**  Item `both(one(','), F)` with
`F = pred(x ∧ ¬x)` (always failing): it satisfies `ItemHyp` (`Outside.item`: it never succeeds; it
fails on every isolated segment) but is not in `locG` — `one(',')` accepts the separator.  Text
`,b;`, `list_bounded_default`, sink: the first segment is empty, hence bad, and is bounded by bytes
`0..1` (list start to the end of the `,`); the round reports exactly one error, `F`'s
`UnexpectedToken` on `b`, whose token span is bytes `1..2`. -/
theorem C11_located_needs_syntactic : ¬ C11_located_semantic_statement := by
  intro h
  have := h Outside.R m0 3 (tabM_ok _ _ _ (Nat.le_refl _)) (tabM_pass _) none Outside.a 4 [5] (Outside.item _ _)
    Outside.K (Outside.fuelOK _) 0 Outside.lx (atIdx_new _ _ _ Outside.kept_eq) rfl 0 Outside.posB 3 8 1 sinkCtx
    World.init (Or.inl rfl) rfl _ _ Outside.e1_outside.1 Outside.e1 (by rw [Outside.round_log]; rfl)
  exact Outside.e1_outside.2.2 this

/-- the counterexample item is outside the syntactic fragment, as it must be -/
example : locG [4, 5] Outside.a = false := rfl

/-! ### non-vacuity -/

/-- The hypotheses are satisfiable and the theorem applies: text `a,b;`, item `one(a)`,
`list_bounded_default(0, None, …)` with a sink — the conclusion of `C11_list_partial` holds for
this run (two entries, the second a placeholder, one error, three tokens consumed). -/
example : SinkConcl Good.R m0 4 none Good.K Good.a 4 [5] 9 3 1 0 none 0 Good.lx sinkCtx World.init ∧
    (listSpec Good.R.text none none Good.a 4 [5] Good.K).nbad = 1 ∧
    (listSpec Good.R.text none none Good.a 4 [5] Good.K).entries.length = 2 ∧
    (listSpec Good.R.text none none Good.a 4 [5] Good.K).consumed = 3 :=
  ⟨(C11_list_partial (tabM_ok _ _ _ (Nat.le_refl _)) (tabM_pass _) Good.item (Good.fuelOK Good.K) 9 3 1 0 none sinkCtx
      World.init (by decide) rfl (atIdx_new _ _ _ Good.kept_eq) rfl (Or.inl rfl) Good.run_ne_fuel).1 rfl
      Good.spec_eq.2.2.2,
    Good.spec_eq.1, Good.spec_eq.2.1, Good.spec_eq.2.2.1⟩

/-- the syntactic conditions are decidable and hold for typical items -/
example : locG [4, 5] (.right (.one 0) (.repeat_ 0 0 none (.any [1, 2]))) = true ∧
    nnG (.right (.one 0) (.repeat_ 0 0 none (.any [1, 2]))) = true := ⟨rfl, rfl⟩

/-- and fail for the counterexample items -/
example : locG [4, 5] EndOfText.a = false ∧ locG [4, 5] Lookahead.a = false ∧ locG [4, 5] Rejected.a = false :=
  ⟨rfl, rfl, rfl⟩

/-- Non-vacuity of the location clause: text `a,b;`, item `one(a)`, `list_bounded_default(0, None, …)`
with a sink, fresh lexer (`lb = 0`).  The second segment `b` is the only bad one; the oracle's
bounds for it are bytes `1..4` (start of the `,` to the end of the `;`), and the single logged
error lies within them. -/
example : badBounds (listSpec Good.R.text none none Good.a 4 [5] Good.K).entries 4 [5] 0 4 Good.K = [(1, 4)] ∧
    ∃ lx' W' e, run Good.R 10 Good.g Good.lx sinkCtx World.init =
        (.ok (.list ((listSpec Good.R.text none none Good.a 4 [5] Good.K).entries.map (render 3))) lx', W') ∧
      W'.log = [e] ∧ ErrWithin 1 4 e := by
  refine ⟨by rfl, ?_⟩
  obtain ⟨lx', W', errs, h1, _, _, h4, h5, h6⟩ :=
    C11_errors_located (tabM_ok _ _ _ (Nat.le_refl _)) (tabM_pass _) Good.item (by rfl) (Good.fuelOK Good.K) 9 3 1 0 none
      sinkCtx World.init (by decide) rfl (atIdx_new _ _ _ Good.kept_eq) rfl (C11_posB_new 0 m0 4) (Or.inl rfl) rfl
      Good.run_ne_fuel Good.spec_eq.2.2.2
  have hb : (badBounds (listSpec Good.R.text none (effHi 3 none) Good.a 4 [5] (Good.K.drop 0)).entries 4 [5] 0 4
      (Good.K.drop 0))[0]? = some (1, 4) := by rfl
  obtain ⟨e, he, hin⟩ := h6 0 (1, 4) hb
  have hlen : errs.length = 1 := by rw [h4]; exact Good.spec_eq.1
  have herrs : errs = [e] := by
    match errs, hlen, he with
    | [x], _, he => simp at he; rw [he]
  refine ⟨lx', W', e, h1, ?_, hin⟩
  rw [h5, herrs]
  have : ¬ ((listSpec Good.R.text none (effHi 3 none) Good.a 4 [5] (Good.K.drop 0)).entries.length < effLo 3 0) := by
    simp [effLo]
  rw [if_neg this]
  rfl

end Tephra.Props
