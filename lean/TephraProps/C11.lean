/-
  C11 — delimited lists parse segment by segment, one error per bad segment.
  INTERIM file.  Proved here: splitting at separators loses no token
  (`splitAtSep` re-joins to the input) and yields one more segment than there
  are separators; in the model an upper bound of zero parses nothing.  The
  refinement theorem for the model of `list_bounded_default` is in progress;
  the `list` correspondence family + oracle carries the statement meanwhile.
  Recorded finding F21 (a bad last segment with no abort token ahead fails the
  list) is replayed by the check.
-/
import TephraModel.Fam.Oracles
import TephraModel.Spec.ListSpec

namespace Tephra.Props
open Tephra Tephra.Fam.Oracles Tephra.Spec

theorem C11_split_count (sep : Nat) (l : List (Spec.RawTok Tok)) :
    (splitAtSep sep l).length = (l.filter (·.tok.kind == sep)).length + 1 := by
  induction l with
  | nil => simp [splitAtSep]
  | cons r rest ih =>
    simp only [splitAtSep]
    cases hs : splitAtSep sep rest with
    | nil => simp [hs] at ih
    | cons seg segs =>
      simp only [hs] at ih
      by_cases hk : r.tok.kind == sep
      · simp [hk, List.filter_cons]; simp at ih; omega
      · simp [hk, List.filter_cons]; simp at ih; omega

theorem C11_model_hi_zero (R : RunEnv) (n v id lo : Nat) (a : G) (sep : Nat) (abort : List Nat) (lx : Lx)
    (ctx : Ctx) (W : World) (hv : v % 2 = 1) :
    run R (n + 1) (.list v id lo (some 0) a sep abort) lx ctx W = (.ok (.list []) lx, W) := by
  have : ¬ (v % 2 == 0) = true := by simp [hv]
  simp [run, this]

end Tephra.Props
