import TephraProps.C10
#print axioms Tephra.Props.C10_ref_unopened
#print axioms Tephra.Props.C10_ref_abort_first
#print axioms Tephra.Props.C10_ref_empty
#print axioms Tephra.Props.C10_rle_refines_stack
#print axioms Tephra.Props.C10_rle_refines_stack_general
#print axioms Tephra.Props.C10_rle_mismatch_first
#print axioms Tephra.Props.C10_rle_matched
#print axioms Tephra.Props.C10_rle_no_panic
#print axioms Tephra.Props.C10_rle_invariant
#print axioms Tephra.Props.C10_no_unreachable
#print axioms Tephra.Props.C10_no_unreachable_model
#print axioms Tephra.Props.C10_match_refines
#print axioms Tephra.Props.C10_run_fuel_enough
#print axioms Tephra.Props.C10_match_no_panic_no_fuel
#print axioms Tephra.Props.C10_match_found
#print axioms Tephra.Props.C10_bracket_positions
#print axioms Tephra.Props.C10_bracket_ok_lexer
