import TephraProps.C10
#print axioms Tephra.Props.C10_ref_unopened
#print axioms Tephra.Props.C10_ref_abort_first
#print axioms Tephra.Props.C10_ref_empty
