import TephraProps.C14
#print axioms Tephra.Props.C14_empty_capture
#print axioms Tephra.Props.C14_single_token
#print axioms Tephra.Props.C14_model_clamp
#print axioms Tephra.Props.C14_partial
#print axioms Tephra.Props.C14_spanned
#print axioms Tephra.Props.C14_text
#print axioms Tephra.Props.C14_extends_C07
