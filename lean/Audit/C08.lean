import TephraProps.C08
#print axioms Tephra.Props.C08_recover_success_transparent
#print axioms Tephra.Props.C08_recover_no_sink_returns_error
#print axioms Tephra.Props.C08_nosink_log_empty
#print axioms Tephra.Props.C08_sink_monotone
#print axioms Tephra.Props.C08_recoveryFree_sink_independent
#print axioms Tephra.Props.C08_no_recover_state_without_sink
#print axioms Tephra.Props.C08_lockstep
#print axioms Tephra.Props.C08_a
#print axioms Tephra.Props.C08_b
#print axioms Tephra.Props.C08_c
#print axioms Tephra.Props.C08_a_committed_false
#print axioms Tephra.Props.C08_c_committed_false
#print axioms Tephra.Props.committed'_imp_committed
