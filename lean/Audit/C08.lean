import TephraProps.C08
#print axioms Tephra.Props.C08_recover_success_transparent
#print axioms Tephra.Props.C08_recover_no_sink_returns_error
#print axioms Tephra.Props.C08_nosink_log_empty
#print axioms Tephra.Props.C08_sink_monotone
