import TephraProps.C19
#print axioms Tephra.Props.C19_end_measurement
