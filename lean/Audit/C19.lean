import TephraProps.C19
#print axioms Tephra.Props.C19_next
#print axioms Tephra.Props.C19_previous
#print axioms Tephra.Props.C19_line_start
#print axioms Tephra.Props.C19_line_end
#print axioms Tephra.Props.C19_previous_line_end
#print axioms Tephra.Props.C19_next_line_start
#print axioms Tephra.Props.C19_start
#print axioms Tephra.Props.C19_end
#print axioms Tephra.Props.C19_after_str
#print axioms Tephra.Props.C19_after_chars
#print axioms Tephra.Props.C19_next_after_chars
#print axioms Tephra.Props.C19_is_line_break
#print axioms Tephra.Props.C19_navigation
#print axioms Tephra.Props.C19_total
#print axioms Tephra.Props.C19_next_then_previous
#print axioms Tephra.Props.C19_previous_then_next
#print axioms Tephra.Props.C19_iter_columns
