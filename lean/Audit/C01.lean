import TephraProps.C01
#print axioms Tephra.Props.C01_context_total
#print axioms Tephra.Props.C19_total
#print axioms Tephra.Props.C18_split
#print axioms Tephra.Props.C18_widen
#print axioms Tephra.Props.C20_window_defined
