import TephraProps.C01
import TephraProps.C14
import TephraProps.C10
import TephraProps.C16
#print axioms Tephra.Props.C01_context_total
#print axioms Tephra.Props.C19_total
#print axioms Tephra.Props.C18_split
#print axioms Tephra.Props.C18_widen
#print axioms Tephra.Props.C20_window_defined
#print axioms Tephra.Props.C01_run_no_panic_partial
#print axioms Tephra.Props.C01_run_no_panic_bracket_partial
#print axioms Tephra.Props.C01_run_no_panic_from
#print axioms Tephra.Props.C01_run_no_panic
#print axioms Tephra.Props.C14_partial
#print axioms Tephra.Props.C10_match_no_panic_no_fuel
#print axioms Tephra.Props.C16_render_total_report
#print axioms Tephra.Props.C01_report_total
#print axioms Tephra.Props.C01_report_total_any
#print axioms Tephra.Props.C01_run_report_total_from
#print axioms Tephra.Props.C01_run_report_total
#print axioms Tephra.Props.C01_harness_report_total
#print axioms Tephra.Props.C01_count_report_panics
#print axioms Tephra.Props.C01_lexer_display_total
#print axioms Tephra.Props.C01_lexer_display_total_any
#print axioms Tephra.Props.C01_reachable_lexer_display_total
#print axioms Tephra.Props.C01_harness_lexer_display_total
