import TephraProps.C13
#print axioms Tephra.Props.C13_one_reports_offender
#print axioms Tephra.Props.C13_any_reports_lookahead
