import TephraProps.C13
#print axioms Tephra.Props.C13_one_reports_offender
#print axioms Tephra.Props.C13_any_reports_lookahead
#print axioms Tephra.Props.C13_spans_from_lexer
#print axioms Tephra.Props.C13_spans_from_new
#print axioms Tephra.Props.C13_enclosing_start_le_end
#print axioms Tephra.Props.C13_start_le_end
#print axioms Tephra.Props.C13_one_unexpected
#print axioms Tephra.Props.C13_any_unexpected
#print axioms Tephra.Props.C13_anyIndex_unexpected
#print axioms Tephra.Props.C13_seq_unexpected
#print axioms Tephra.Props.C13_pred_unexpected
#print axioms Tephra.Props.C13_endOfText_unexpected
#print axioms Tephra.Props.C13_leaf_unexpected
#print axioms Tephra.Props.one_fails
