import TephraProps.C04
#print axioms Tephra.Props.C04_iter
#print axioms Tephra.Props.C04_iter_setFilter
#print axioms Tephra.Props.C04_iter_withFilter
#print axioms Tephra.Props.C04_tiles
#print axioms Tephra.Props.C04_fuel
#print axioms Tephra.Props.exEnv_ok
#print axioms Tephra.Props.C04_iter_is_next_loop
#print axioms Tephra.Props.C04_next_loop_delivered
#print axioms Tephra.Props.C04_parse_span_history
#print axioms Tephra.Props.C04_parse_span_history_metrics
#print axioms Tephra.Props.C04_measureText_byte
