import TephraProps.C04
#print axioms Tephra.Props.C04_raw_tiles
