import TephraProps.C17
#print axioms Tephra.Props.C17_span_algebra
#print axioms Tephra.Props.C17_pinned_minus_violates
