import TephraProps.C20
#print axioms Tephra.Props.C20_clipped
#print axioms Tephra.Props.C20_window_defined
#print axioms Tephra.Props.C20_window_extent
#print axioms Tephra.Props.C20_window_nav
#print axioms Tephra.Props.C20_window_widen
#print axioms Tephra.Props.C20_window_split
#print axioms Tephra.Props.C20_window_split_anyfuel
#print axioms Tephra.Props.C20_window_prev
#print axioms Tephra.Props.C20_window_prevLineEnd
#print axioms Tephra.Props.C20_window_prev_partial
#print axioms Tephra.Props.C20_window_prevLineEnd_partial
#print axioms Tephra.Props.C20_window_prev_at_start
#print axioms Tephra.Props.C20_window_prev_statement_holds
#print axioms Tephra.Props.C20_former_F13c_witness
#print axioms Tephra.Props.C20_owned_roundtrip
#print axioms Tephra.Props.C20_window_of_window
#print axioms Tephra.Props.C20_clipped_nested
