import TephraProps.C20
#print axioms Tephra.Props.C20_clipped
#print axioms Tephra.Props.C20_window_defined
#print axioms Tephra.Props.C20_window_extent
#print axioms Tephra.Props.C20_window_nav
#print axioms Tephra.Props.C20_window_widen
#print axioms Tephra.Props.C20_window_split
#print axioms Tephra.Props.C20_window_split_anyfuel
#print axioms Tephra.Props.C20_window_prev_partial
#print axioms Tephra.Props.C20_window_prevLineEnd_partial
#print axioms Tephra.Props.C20_finding_F13c
#print axioms Tephra.Props.C20_window_prev_statement_false
#print axioms Tephra.Props.C20_owned_roundtrip
