import TephraProps.C20
#print axioms Tephra.Props.C20_clip_start
