import TephraProps.C02
#print axioms Tephra.Props.C02_stabilize_no_retry_without_progress
#print axioms Tephra.Props.C02_stabilize_without_recover_state
#print axioms Tephra.Props.C02_fuel_mono
#print axioms Tephra.Props.C02_fuel_mono_all
#print axioms Tephra.Props.C02_cursor_mono
#print axioms Tephra.Props.C02_next_progress
#print axioms Tephra.Props.C02_recovery_loops_terminate
#print axioms Tephra.Props.C02_list_loop_terminates
#print axioms Tephra.Props.C02
#print axioms Tephra.Props.C02_initial
#print axioms Tephra.Props.C02_terminates_loopFree
#print axioms Tephra.Props.C02_terminates_partial
#print axioms Tephra.Props.C02_prog_one
#print axioms Tephra.Props.Witness.scanW_ok
#print axioms Tephra.Term.matchLoop_fuel_mono
#print axioms Tephra.Term.run_cursor_mono
#print axioms Tephra.Term.consistent_tableOf
