import TephraProps.C16
#print axioms Tephra.Props.C16_gutter_shape
#print axioms Tephra.Props.C16_gutter_colour_path_agrees
#print axioms Tephra.Props.C16_riser_colour_path_agrees
#print axioms Tephra.Props.C16_mark_row_colour_path_agrees
