import TephraProps.C06
#print axioms Tephra.Props.C06_either_restarts
#print axioms Tephra.Props.C06_maybe_restores
#print axioms Tephra.Props.C06_filter_with_restores
