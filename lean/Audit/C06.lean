import TephraProps.C06
#print axioms Tephra.Props.C06_either_restarts
#print axioms Tephra.Props.C06_maybe_restores
#print axioms Tephra.Props.C06_filter_with_restores
#print axioms Tephra.Props.C06_next_is_pop
#print axioms Tephra.Props.C06_peek_shows_pop
#print axioms Tephra.Props.C06_partial
#print axioms Tephra.Props.C06_fuel_accounting
#print axioms Tephra.Props.C06_abs_view
#print axioms Tephra.Props.C06_finding_F27
#print axioms Tephra.Props.C06_sim_clauses
#print axioms Tephra.Props.C06_filter_scope_refines
#print axioms Tephra.Props.C06_filter_with_refines
#print axioms Tephra.Props.C06_scoped
#print axioms Tephra.Props.C06_scoped_extends
#print axioms Tephra.Props.C06_scoped_needs_body_consumes
#print axioms Tephra.Props.C06_scoped_needs_sub_reset
