import TephraProps.C12
#print axioms Tephra.Props.C12_before_stateless
#print axioms Tephra.Props.C12_after_fires_and_resets
#print axioms Tephra.Props.C12_after_arms
