import TephraProps.C18
#print axioms Tephra.Props.C18_len_step
