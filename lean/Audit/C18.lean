import TephraProps.C18
#print axioms Tephra.Props.C18_widen
#print axioms Tephra.Props.C18_split
#print axioms Tephra.Props.C18_family
#print axioms Tephra.Props.C18_rejoin
#print axioms Tephra.Props.C18_widen_minimal
