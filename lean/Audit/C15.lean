import TephraProps.C15
#print axioms Tephra.Props.C15_apply_chain
#print axioms Tephra.Props.C15_push_innermost
#print axioms Tephra.Props.C15_push_locked_ignored
#print axioms Tephra.Props.C15_raw_strips
#print axioms Tephra.Props.C15_send
#print axioms Tephra.Props.C15_probe_line
#print axioms Tephra.Props.C15_tree
#print axioms Tephra.Props.C15_tree_fuel
#print axioms Tephra.Props.C15_tree_count
#print axioms Tephra.Props.C15_tree_nth
