import TephraProps.C05
#print axioms Tephra.Props.C05_peek_idempotent
#print axioms Tephra.Props.C05_next_delivers_lookahead
#print axioms Tephra.Props.C05_fork_frame
