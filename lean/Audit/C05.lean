import TephraProps.C05
#print axioms Tephra.Props.C05_peek_idempotent
#print axioms Tephra.Props.C05_next_delivers_lookahead
#print axioms Tephra.Props.C05_fork_frame
#print axioms Tephra.Props.C05_partial
#print axioms Tephra.Props.C05_scan_state_sequential
#print axioms Tephra.Props.C05_finding_F19
#print axioms Tephra.Props.C05_needs_final_refusal
#print axioms Tephra.Props.C05_sublex
#print axioms Tephra.Props.C05_sublex_scan_state_sequential
#print axioms Tephra.Props.C05_sublex_syntactic
#print axioms Tephra.Props.C05_partial_is_an_instance
#print axioms Tephra.Props.C05_F19_signature_too_narrow
