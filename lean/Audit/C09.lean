import TephraProps.C09
#print axioms Tephra.Props.C09_sibling_context
#print axioms Tephra.Props.C09_sibling_context_err
#print axioms Tephra.Props.C09_unfiltered_restores
#print axioms Tephra.Props.C09_set_filter_installs
#print axioms Tephra.Props.C09_filter_frame
#print axioms Tephra.Props.C09_context_by_value
#print axioms Tephra.Props.C09_sibling_context_center
#print axioms Tephra.Props.C09_world_frame
