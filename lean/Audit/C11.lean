import TephraProps.C11
#print axioms Tephra.Props.C11_split_count
#print axioms Tephra.Props.C11_model_hi_zero
