import TephraProps.C03
#print axioms Tephra.Props.C03_end_position_canonical
#print axioms Tephra.Props.C03_measure_chunk
