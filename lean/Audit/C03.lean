import TephraProps.C03
import TephraProps.C03Lexer
#print axioms Tephra.Props.C03_end_position_canonical
#print axioms Tephra.Props.C03_measure_chunk
#print axioms Tephra.Props.C03_lexer_positions_partial
#print axioms Tephra.Props.C03_lexer_step
#print axioms Tephra.Props.C03_lexer_new
#print axioms Tephra.Props.C03_lexer_mstep
#print axioms Tephra.Props.C03_lexer_positions
#print axioms Tephra.Props.C03_lexer_positions_measure
#print axioms Tephra.Props.C03_run_spans
#print axioms Tephra.Props.tabP_closed
#print axioms Tephra.Props.tabP_remeasure
#print axioms Tephra.Props.C03_measure_canonical
#print axioms Tephra.Props.C03_measure_canonical_at
#print axioms Tephra.Props.C03_measure_isCanon
#print axioms Tephra.Props.C03_lexer_canonical
#print axioms Tephra.Props.C03_lexer_canonical_prefix
#print axioms Tephra.Props.C03_lexer_isCanon
#print axioms Tephra.Props.C03_harness_closed
#print axioms Tephra.Props.C03_harness_lexer_canonical
#print axioms Tephra.Props.crlfScan_closed
#print axioms Tephra.Props.C03_lexer_isCanon_per_metrics_fails
#print axioms Tephra.Props.f11_withFilter
#print axioms Tephra.Props.C03_former_F11_witness
