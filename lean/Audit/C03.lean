import TephraProps.C03
import TephraProps.C03Lexer
#print axioms Tephra.Props.C03_end_position_canonical
#print axioms Tephra.Props.C03_measure_chunk
#print axioms Tephra.Props.C03_lexer_positions_partial
#print axioms Tephra.Props.C03_lexer_step
#print axioms Tephra.Props.C03_lexer_new
#print axioms Tephra.Props.C03_lexer_builder_order_violates
#print axioms Tephra.Props.tabP_closed
#print axioms Tephra.Props.C03_run_spans
