import TephraProps.C07
#print axioms Tephra.Props.C07_hi_zero
#print axioms Tephra.Props.C07_stops_at_hi
#print axioms Tephra.Props.C07_model_hi_zero
#print axioms Tephra.Props.C07_partial
#print axioms Tephra.Props.C07_extends_C06
