import TephraProps.C17
