import TephraProps.C03
import TephraProps.C03Lexer
import TephraProps.C04
import TephraProps.C05
import TephraProps.C17
import TephraProps.C18
import TephraProps.C19
import TephraProps.C20
