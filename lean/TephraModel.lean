import TephraModel.Basic
import TephraModel.Metrics
import TephraModel.Span
import TephraModel.Wire
import TephraModel.Spec.Canon
import TephraModel.Spec.SpanAlg
import TephraModel.Fam.SpanOps
