import TephraProofs.SpanAlg
import TephraProofs.Canon
import TephraProofs.Nav
import TephraProofs.LexIter
import TephraProofs.LexInv
import TephraProofs.Lines
import TephraProofs.Window
import TephraProofs.WindowPrev
