import TephraProofs.SpanAlg
import TephraProofs.Canon
import TephraProofs.Nav
import TephraProofs.LexIter
import TephraProofs.LexInv
