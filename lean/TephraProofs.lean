import TephraProofs.SpanAlg
