import TephraProofs.SpanAlg
import TephraProofs.Canon
import TephraProofs.Nav
