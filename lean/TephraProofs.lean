import TephraProofs.SpanAlg
import TephraProofs.Canon
